#!/usr/bin/env python3
"""Writes /verif/MANIFEST.json (kept in one place so that it stays consistent)."""
import json, os
ROOT = os.path.dirname(os.path.dirname(os.path.abspath(__file__)))

claimed = {
 "C02": ("fault_enumeration", "4 C02",
   "Seeded histories over the whole safe API of Map and Set (ten element shapes, capacities 0..64 and 300) with every cancellation point of every consuming iterator / drain / entry enumerated (j = 0..=len x {exhaust, drop, mem::forget}) and relocation of the container value between steps; a per-object ledger checks after every step that each key/value object is in exactly one place and is destroyed exactly once, and that no callback or return value ever denotes a dead or never-initialised (0xA5-poisoned) slot. Thorough adds Miri batches of the same plans (host target, 32-bit i686 and big-endian s390x).",
   "deterministic simulation: seeded histories + enumerated cancellation points (drop / mem::forget) with an object-ledger oracle"),
 "C03": ("fault_enumeration", "4 C03",
   "Resource exhaustion as the injected fault: seeded histories are steered into the full state along many paths and every safe insertion entry point (16 of them, bulk ones also with useless and incorrect size hints) is driven against it, in the release and the dev (debug-assertion) build of the same simulator, thorough also under AddressSanitizer and Miri (host, 32-bit i686 and big-endian s390x targets); the oracle is did-it-panic, identity snapshot before/after, the ledger for the rejected key/value, canaries around the container, checked_insert's answer, replace-on-full.",
   "deterministic simulation: slot-exhaustion fault at every insertion entry point, in release, dev, ASan and Miri builds"),
 "C04": ("fault_enumeration", "4 C04",
   "For each seeded history a fault-free dry run counts the user callbacks (eq, borrow, clone, drop, predicate, closure, Default, source next/size_hint, Debug/Display, sink write) of each operation; the history is then re-run once per callback position with a panic injected exactly there (thorough: every operation of the history is the target in turn; a minority of runs carry 2-3 faults in different operations). After unwinding, the ledger, the well-formedness of every operand and an aftermath of further operations decide: no double destruction, no use of dead/uninitialised slots, survivors usable. Leaks caused by the faulted operation are tolerated, as the property allows.",
   "deterministic simulation: panic injection at every enumerated user-callback position, object-ledger + survivor well-formedness oracle"),
 "C05": ("exploration", "4 C05",
   "Standing invariant evaluated by the simulator after every step of seeded histories that mix ordinary operations with container-raised panics (overflow through each entry point, Index on a missing key, overlapping get_disjoint_mut keys, with_capacity(c != N)), in release and dev builds: iter().count()==len(), is_empty, len<=capacity, keys pairwise unequal, every yielded key found by get/get_key_value/contains_key in own and borrowed form and returning the very value object yielded with it.",
   "deterministic simulation: seeded histories with container-raised panics, model-free well-formedness invariant after every step"),
 "C06": ("exploration", "4 C06",
   "The global allocator is a seam: a counting wrapper whose window is armed around every micromap call made with non-allocating element shapes and the non-allocating fixed-buffer sink (all simulator callbacks pause it). Any allocator entry inside a non-panicking operation is a violation; every reference handed out must lie inside the bytes of the container value, also after the value was relocated. The no_std clause is decided by a build probe (library built with default features, rlib dependency listing must be core + compiler_builtins only) - declared as auxiliary, not simulation.",
   "deterministic simulation: allocator seam (count every request inside operation windows), address-range check; auxiliary no_std build probe"),
 "C10": ("fault_enumeration", "4 C10",
   "For every sampled container state and every consuming iterator kind (into_iter, into_keys, into_values, drain, Set::into_iter, Set::drain) the cancellation point is enumerated (take j = 0..=len, then exhaust, drop, or let go through a provided Iterator method: fold, for_each, count, last, nth, find, skip, step_by, min_by_key, all); the oracle compares yielded identities with the identity snapshot taken through iter() before, checks len()/size_hint() before every step, None after the end, and that the drained container is empty and reusable - also when the destructor of an element still inside the drain panics while the drain is dropped (injected at the first destructor calls of that drop).",
   "deterministic simulation: enumerated cancellation point of every consuming iterator / drain, identity-snapshot + twin-order oracle"),
 "C16": ("exploration", "4 C16",
   "The source stream is a simulator-owned iterator that plays scripts (arbitrary repetition, lengths below/at/far above N) and chooses legal-but-unusual behaviour per run (lying size_hint of five kinds, non-fused end). Bulk construction (collect, From<[_;N]>, Set::extend by value and by reference) is compared differentially with one-by-one insert on the real container type, by (class, stored key tag, value tag); the pull log must be front-to-back exactly once; panics must agree with the one-by-one reference.",
   "deterministic simulation: scripted source stream with unusual size_hint / fusing behaviour, differential against one-by-one insertion on the real type"),
 "C17": ("exploration", "4 C17",
   "Byzantine dependency: the outcome of every key and value comparison is chosen by the simulator from a recorded sub-seeded stream (always-true/false, random, flip, non-reflexive, asymmetric, truthful-then-lying, alternating, phase changes) and Borrow may hand out a different field than == uses. All safe operations run under it; the ledger (exactly-once destruction), len-vs-iteration, aliasing/bounds of get_disjoint_mut results and canaries decide. Thorough adds ASan and Miri batches (Miri also for 32-bit i686 and big-endian s390x).",
   "deterministic simulation: simulator-chosen outcome of every Eq/Borrow call, object-ledger + aliasing + bounds oracle"),
 "C19": ("fault_enumeration", "4 C19",
   "Formatting writes into a simulator-owned fmt::Write sink. Fault-free configuration: the text must equal std's debug_map/debug_set/list rendering (plain and alternate) of the entries seen through iter() / not yet yielded, for Map, Set and nine iterator kinds at every consumption prefix. Fault configuration: the failing write call is enumerated (w = 1..=W) and tiny buffers are used; formatting must never change the container or consume the iterator and must not panic on a sink error.",
   "deterministic simulation: sink write-error at every enumerated write call + exact-text oracle in the fault-free configuration"),
 "C20": ("exploration", "4 C20",
   "The container is written to and read from a caller-supplied transport: (a) a simulator-owned token-level Serializer/Deserializer that records announced length and entries and replays them permuted, with lying size hints, into any target capacity >= len; (b) the real bincode codec over a byte buffer; (c) the real serde_json codec (self-describing text that neither announces nor hints a length; read with from_slice, from_reader and through serde_json::Value, which delivers keys in lexicographic order with an exact hint), with the transport reordering, duplicating, truncating and bit-flipping the text. Oracle: announced == len() == emitted entries (each one of the container's, once), decoded == original both ways and same (class, payload) set; source unchanged. Truncated / bit-flipped streams and serializer errors are injected as diagnostics under the ledger rules only.",
   "deterministic simulation: simulator-owned serde transport (reordering, lying hints, capacity variation) + real bincode and serde_json codecs, round-trip oracle"),
}

na = {
 "C01": "pure function of the call sequence: no callback outcome, abandonment, exhaustion aftermath, stream endpoint, schedule or clock is quantified over; a model-based input generator is not a simulation target (its operations still run as workload under C02/C04/C05/C17)",
 "C07": "same as C01 for Set; its stream and cancellation surfaces (extend, drain) are decided under C16 and C10, the rest is input -> output",
 "C08": "pure function of two operand values and a consumption prefix; the lazy adaptors hold only shared references, so abandoning them leaves nothing to clean up; panicking / lying Eq under them is C04 / C17",
 "C09": "borrowing iterators own nothing and borrow a frozen container: no event can occur between two steps, so there is no schedule, fault or cancellation consequence to simulate",
 "C11": "pure function of (state, key, method chain) with deterministic closure-call counts; a panicking closure is C04 and an abandoned or forgotten entry is C02",
 "C12": "which of two equal key objects is stored is a pure function of the call sequence; no seam behaviour enters the statement",
 "C13": "under lawful Eq (the property's premise) a pure function of (state, key tuple); aliasing under unlawful Eq is C17 and the state after the overlap panic is C05",
 "C14": "read-only pure function of two container values",
 "C15": "clone count and independence are deterministic functions of the input; the only fault-dependent aspect (Clone panicking midway) is C04",
 "C18": "equality of two code paths on inputs satisfying a precondition; violating the contract is explicitly outside the property, and there is no fault or interleaving in it",
}

checks = []
for pid, (cat, ref, text, tech) in claimed.items():
    checks.append({
        "property_id": pid,
        "quick_cmd": f"./check {pid} quick",
        "thorough_cmd": f"./check {pid} thorough",
        "evidence_file": f"/verif/evidence/{pid}.json",
        "replay_cmd_template": "./check replay {path}",
        "engine": "microsim",
        "level_claimed": {"category": cat, "text": text, "design_ref": f"DESIGN.md section {ref}"},
        "level_note": "Sampling, not proof: capacities <= 64 and 300 (256 for one C06 configuration), histories <= 24 operations, ten element shapes, one PRNG stream per VERIF_SEED. Trusted base: the simulator's own bookkeeping (ledger, snapshots through iter(), mirror rendering), rustc/std, and for native runs the 0xA5 poison hook as the detector of never-initialised slots; real UB detection only in the Miri/ASan batches of the thorough tier.",
        "technique": tech,
    })

manifest = {
    "version": 1,
    "setup_cmd": "./check build",
    "hooks": {
        "guard": "cargo feature verif_hooks (declared in /repo/Cargo.toml, off by default)",
        "enable": "the simulator crate /verif/sim depends on micromap by path (/repo) with features [serde, verif_hooks]; `./check build` rebuilds it from /repo's working tree",
        "baseline_off_cmd": "cd /repo && cargo test --workspace --no-fail-fast --offline",
        "source_commits": ["91ed1fb"],
        "add_only": True,
    },
    "engines": [{
        "name": "microsim",
        "path": "/verif/sim",
        "serves_properties": list(claimed.keys()),
        "kind_free_text": "deterministic simulator with fault injection: real micromap in the middle, every caller-supplied callback / stream / sink / transport / allocator / holder is a stub owned by a seeded simulator; plans are explicit, minimised and replayable",
    }],
    "checks": checks,
    "not_applicable": [{"property_id": k, "reason": v} for k, v in na.items()],
    "notes": "Genuine defects found by the C04 check on the pinned tree and repaired by fix: commits ba47ce5, d0df859, f43d969 are listed in /verif/known_findings.json (status fixed: they suppress nothing). See DESIGN.md.",
}
json.dump(manifest, open(os.path.join(ROOT, "MANIFEST.json"), "w"), indent=1)
print("MANIFEST.json written:", len(checks), "checks,", len(na), "not applicable")
