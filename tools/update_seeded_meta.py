#!/usr/bin/env python3
"""Refreshes detected_by / first_violation_of_target_check in seeded/*/meta.json from
selftest/results/seeded.txt (output of `selftest/mutants_all.sh seeded`)."""
import json, os, re, collections
ROOT = os.path.dirname(os.path.dirname(os.path.abspath(__file__)))
res = collections.defaultdict(dict)
sp = f"{ROOT}/selftest/results/seeded.txt"
for line in (open(sp) if os.path.exists(sp) else []):
    m = re.match(r"^(C\d\d-\d+) (C\d\d) (DETECTED|missed|harness-error)\s*(.*)$", line.rstrip("\n"))
    if m:
        res[m.group(1)][m.group(2)] = (m.group(3), m.group(4).strip())
for sid, r in sorted(res.items()):
    p = f"{ROOT}/seeded/{sid}/meta.json"
    if not os.path.exists(p):
        continue
    meta = json.load(open(p))
    if len(r) < 10:
        print(sid, "incomplete sweep result, left alone"); continue
    meta["detected_by"] = sorted(k for k, v in r.items() if v[0] == "DETECTED")
    t = meta["breaks_property"]
    meta["first_violation_of_target_check"] = r.get(t, ("", ""))[1] if r.get(t, ("", ""))[0] == "DETECTED" else ""
    if any(v[0] == "harness-error" for v in r.values()):
        meta["notes"] = "harness error in: " + ", ".join(k for k, v in r.items() if v[0] == "harness-error")
    json.dump(meta, open(p, "w"), indent=1)
    print(sid, t, "DETECTED" if t in meta["detected_by"] else "MISSED", ",".join(meta["detected_by"]))

# ---- final target-only sweep: selftest/results/seeded_target.txt
import glob, subprocess
tlines = []
for tp in sorted(glob.glob(f"{ROOT}/selftest/results/seeded_target*.txt"), key=os.path.getmtime):
    tlines += list(open(tp))   # later files override earlier ones
if tlines:
    head = subprocess.check_output(["git", "-C", ROOT, "rev-parse", "--short", "HEAD"], text=True).strip()
    for line in tlines:
        m = re.match(r"^(C\d\d-\d+) (C\d\d) (DETECTED|missed|harness-error)\s*(.*)$", line.rstrip("\n"))
        if not m:
            continue
        p = f"{ROOT}/seeded/{m.group(1)}/meta.json"
        if not os.path.exists(p):
            continue
        meta = json.load(open(p))
        if meta["breaks_property"] != m.group(2):
            continue
        meta["target_check_final"] = {"result": m.group(3), "first_violation": m.group(4).strip()[:240], "simulator_commit_or_later": head}
        if m.group(3) == "DETECTED" and m.group(2) not in meta["detected_by"]:
            meta["detected_by"] = sorted(set(meta["detected_by"]) | {m.group(2)})
        if m.group(3) == "DETECTED":
            meta["first_violation_of_target_check"] = m.group(4).strip()
        json.dump(meta, open(p, "w"), indent=1)
        print(m.group(1), m.group(2), m.group(3))

# ---- independent re-implementations: alarms from selftest/results/refactors_seeded.txt
rp = f"{ROOT}/selftest/results/refactors_seeded.txt"
if os.path.exists(rp):
    rr = collections.defaultdict(dict)
    for line in open(rp):
        m = re.match(r"^(RS-\d+) (C\d\d|-) (DETECTED|missed|harness-error)\s*(.*)$", line.rstrip("\n"))
        if m:
            rr[m.group(1)][m.group(2)] = (m.group(3), m.group(4).strip())
    for rid, r in sorted(rr.items()):
        p = f"{ROOT}/refactors_seeded/{rid}/meta.json"
        if not os.path.exists(p) or len(r) < 10:
            print(rid, "incomplete, left alone"); continue
        meta = json.load(open(p))
        meta["alarms"] = [k + ": " + v[1][:200] for k, v in sorted(r.items()) if v[0] == "DETECTED"]
        meta["harness_errors"] = [k for k, v in r.items() if v[0] == "harness-error"]
        json.dump(meta, open(p, "w"), indent=1)
        print(rid, "QUIET" if not meta["alarms"] and not meta["harness_errors"] else "ALARM " + "; ".join(meta["alarms"]))
