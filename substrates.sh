#!/bin/bash
# Auxiliary execution substrates, sourced by ./check.
#   - C06 (every tier): the no_std build probe (not simulation; see DESIGN.md)
#   - thorough tier: the same plans under Miri (C02, C03, C04, C17; hooks off) and under
#     AddressSanitizer (C03, C17)
# Sets SUBSTRATE_VIOLATION (a VIOLATION line) and appends evidence arguments to the array `extra`.
SUBSTRATE_VIOLATION=""

MIRI_TEXT=""
_miri_batch() { # prop seed procs bases_per_proc variants [target first_base]
  local prop="$1" seed="$2" procs="$3" per="$4" vars="$5" tgt="${6:-}" first="${7:-2000000000}"
  local T="$SIM/target/miri" L="$SIM/target/miri-logs${tgt:+-$tgt}"; mkdir -p "$L"; rm -f "$L"/$prop-*.log
  local targ=(); [ -n "$tgt" ] && targ=(--target "$tgt")
  # leaks are not undefined behaviour: mem::forget and the leaks C04 tolerates are judged by the ledger
  export MIRIFLAGS="-Zmiri-disable-isolation -Zmiri-ignore-leaks"
  # warm-up build (also proves the harness itself is clean under Miri on a trivial batch)
  ( cd "$SIM" && CARGO_TARGET_DIR="$T" cargo +nightly miri run --offline --no-default-features "${targ[@]}" -- miri-batch --prop "$prop" --seed "$seed" --from 0 --to 0 >"$L/$prop-build.log" 2>&1 ) || { echo "harness error: Miri build failed (see $L/$prop-build.log)"; return 2; }
  local i pids=()
  for ((i=0;i<procs;i++)); do
    ( cd "$SIM" && CARGO_TARGET_DIR="$T" cargo +nightly miri run --offline --no-default-features "${targ[@]}" -- miri-batch --prop "$prop" --seed "$seed" --from $((first + i*per)) --to $((first + (i+1)*per)) --variants "$vars" >"$L/$prop-$i.log" 2>&1 ) &
    pids+=($!)
  done
  local rc=0 runs=0 bad=""
  for ((i=0;i<procs;i++)); do
    wait "${pids[$i]}"
    if grep -q '^MIRI-OK' "$L/$prop-$i.log"; then
      runs=$((runs + $(grep '^MIRI-OK' "$L/$prop-$i.log" | sed 's/.*runs=//')))
    else
      bad="$L/$prop-$i.log"; rc=1
    fi
  done
  if [ $rc -ne 0 ]; then
    mkdir -p "$ROOT/replays/$prop"
    local rp="$ROOT/replays/$prop/$seed-miri${tgt:+-$tgt}.json"
    local plan; plan="$(grep '^MIRI-PLAN ' "$bad" | tail -1 | sed 's/^MIRI-PLAN //')"
    local why; why="$(grep -m1 -E '^error|^MIRI-VIOLATION' "$bad" | tr -d '"' | cut -c1-300)"
    [ -n "$plan" ] || { echo "harness error: Miri batch failed without a plan (see $bad)"; return 2; }
    printf '{"substrate": "miri", "target": "%s", "property": "%s", "rule": "miri-report", "detail": "%s", "seed": %s, "plan": %s}\n' "$tgt" "$prop" "$why" "$seed" "$plan" > "$rp"
    echo "  $prop [miri-report] $why"
    SUBSTRATE_VIOLATION="VIOLATION property=$prop replay=$rp"
  fi
  MIRI_TEXT="$MIRI_TEXT${MIRI_TEXT:+; }$runs plans interpreted by Miri${tgt:+ for target $tgt} in $procs processes (hooks off), $( [ $rc -eq 0 ] && echo 'no undefined behaviour and no rule violation reported' || echo 'FAILED' )"
  return 0
}

_asan_batch() { # prop seed procs bases_per_proc
  local prop="$1" seed="$2" procs="$3" per="$4"
  local T="$SIM/target/asan" L="$SIM/target/asan-logs"; mkdir -p "$L"; rm -f "$L"/$prop-*.log
  ( cd "$SIM" && CARGO_TARGET_DIR="$T" RUSTFLAGS="-Zsanitizer=address" cargo +nightly build --offline --release --target x86_64-unknown-linux-gnu >"$L/$prop-build.log" 2>&1 ) || { echo "harness error: ASan build failed (see $L/$prop-build.log)"; return 2; }
  local bin="$T/x86_64-unknown-linux-gnu/release/microsim" i pids=()
  for ((i=0;i<procs;i++)); do
    ( ASAN_OPTIONS=detect_leaks=0 "$bin" miri-batch --prop "$prop" --seed "$seed" --from $((3000000000 + i*per)) --to $((3000000000 + (i+1)*per)) --variants 12 >"$L/$prop-$i.out" 2>"$L/$prop-$i.log" ) &
    pids+=($!)
  done
  local rc=0 runs=0 bad=""
  for ((i=0;i<procs;i++)); do
    wait "${pids[$i]}"
    if grep -q '^MIRI-OK' "$L/$prop-$i.out"; then
      runs=$((runs + $(grep '^MIRI-OK' "$L/$prop-$i.out" | sed 's/.*runs=//')))
    else
      bad="$L/$prop-$i"; rc=1
    fi
  done
  if [ $rc -ne 0 ]; then
    mkdir -p "$ROOT/replays/$prop"
    local rp="$ROOT/replays/$prop/$seed-asan.json"
    local plan; plan="$(grep '^MIRI-PLAN ' "$bad.log" | tail -1 | sed 's/^MIRI-PLAN //')"
    local why; why="$( (grep -m1 -E 'ERROR: AddressSanitizer' "$bad.log"; grep -m1 '^MIRI-VIOLATION' "$bad.out") | head -1 | tr -d '"' | cut -c1-300)"
    [ -n "$plan" ] || { echo "harness error: ASan batch failed without a plan (see $bad.log)"; return 2; }
    printf '{"substrate": "asan", "property": "%s", "rule": "asan-report", "detail": "%s", "seed": %s, "plan": %s}\n' "$prop" "$why" "$seed" "$plan" > "$rp"
    echo "  $prop [asan-report] $why"
    SUBSTRATE_VIOLATION="VIOLATION property=$prop replay=$rp"
  fi
  extra+=(--asan-result "$runs plans executed in an AddressSanitizer build in $procs processes, $( [ $rc -eq 0 ] && echo 'no report' || echo 'FAILED' )")
  return 0
}

substrates() {
  local prop="$1" tier="$2" seed="$3"
  if [ "$prop" = C06 ]; then
    local out; out="$("$ROOT/selftest/nostd_probe.sh" 2>&1)"; local rc=$?
    extra+=(--nostd-result "$out")
    if [ $rc -eq 1 ]; then
      mkdir -p "$ROOT/replays/C06"
      printf '{"substrate": "nostd", "property": "C06", "rule": "needs-std", "detail": "%s"}\n' "$(echo "$out" | tr -d '"')" > "$ROOT/replays/C06/nostd-probe.json"
      echo "  C06 [needs-std] $out"
      SUBSTRATE_VIOLATION="VIOLATION property=C06 replay=$ROOT/replays/C06/nostd-probe.json"
    elif [ $rc -ne 0 ]; then
      echo "harness error: $out"; return 2
    fi
  fi
  if [ "$tier" = thorough ]; then
    case "$prop" in
      C02|C03|C04|C17)
        _miri_batch "$prop" "$seed" 16 "${VERIF_MIRI_BASES:-6}" 6 || return $?
        # the same interpreter for a 32-bit little-endian and a 64-bit big-endian target (Miri builds their
        # sysroots offline from rust-src): different usize width, layout, alignment and byte order
        if [ -z "$SUBSTRATE_VIOLATION" ] && [ "${VERIF_MIRI_XBASES:-3}" != 0 ]; then
          _miri_batch "$prop" "$seed" 16 "${VERIF_MIRI_XBASES:-3}" 4 i686-unknown-linux-gnu 2100000000 || return $?
        fi
        if [ -z "$SUBSTRATE_VIOLATION" ] && [ "${VERIF_MIRI_XBASES:-3}" != 0 ]; then
          _miri_batch "$prop" "$seed" 16 "${VERIF_MIRI_XBASES:-3}" 4 s390x-unknown-linux-gnu 2200000000 || return $?
        fi
        extra+=(--miri-result "$MIRI_TEXT")
        ;;
    esac
    case "$prop" in
      C03|C17) _asan_batch "$prop" "$seed" 16 "${VERIF_ASAN_BASES:-3000}" || return $? ;;
    esac
  fi
  return 0
}
