#!/bin/bash
# Sensitivity self-test: applies one patch to a scratch copy of /repo (never to /repo itself),
# builds the simulator against the copy through a shadow manifest, runs the quick check of the
# given properties there and reports which of them raise a violation.
#   selftest/mutant.sh [--dev-only] <patch> <PROP>...      (MUTANT_DIV=d: a d-th of the quick budget per check)
# Prints one line per property:  <patch> <PROP> DETECTED|missed|harness-error  [first violation]
set -u
ROOT="$(cd "$(dirname "${BASH_SOURCE[0]}")/.." && pwd)"
DEVONLY=0; TESTS=0
while true; do
  case "${1:-}" in
    --dev-only) DEVONLY=1; shift ;;
    --crate-tests) TESTS=1; shift ;;
    *) break ;;
  esac
done
PATCH="$(realpath "$1")"; shift
NAME="$(basename "$PATCH" | tr -c 'A-Za-z0-9_.\n-' '_')-$$"
S="/root/scratch/$NAME"
rm -rf "$S"; mkdir -p "$S/vroot" "$S/shadow/.cargo"
trap 'rm -rf "$S"' EXIT
git -C /repo archive HEAD | tar -x -C "$S" --one-top-level=repo
# include uncommitted working-tree state of /repo's sources, then the patch
rsync -a --exclude target --exclude .git /repo/src/ "$S/repo/src/"
cp /repo/Cargo.toml "$S/repo/Cargo.toml"
if ! ( cd "$S/repo" && git apply --unsafe-paths --directory="$S/repo" "$PATCH" 2>/dev/null || patch -p1 -s < "$PATCH" ); then
  echo "$(basename "$PATCH") - harness-error patch does not apply"; exit 2
fi
sed -e "s#path = \"/repo\"#path = \"$S/repo\"#" "$ROOT/sim/Cargo.toml" > "$S/shadow/Cargo.toml"
cat >> "$S/shadow/Cargo.toml" <<EOT

[[bin]]
name = "microsim"
path = "$S/simsrc/main.rs"
EOT
# a private snapshot of the simulator sources: edits to /verif/sim while this runs do not disturb it
cp -r "$ROOT/sim/src" "$S/simsrc"
cp "$ROOT/sim/Cargo.lock" "$S/shadow/Cargo.lock"
printf '[net]\noffline = true\n' > "$S/shadow/.cargo/config.toml"
cp "$ROOT/known_findings.json" "$S/vroot/known_findings.json"
export CARGO_NET_OFFLINE=true
if [ $TESTS -eq 1 ]; then
  # the change must compile and pass the crate's own, unedited test suite (default features and serde)
  ( cd "$S/repo" && cp /repo/Cargo.lock . && CARGO_TARGET_DIR="$S/ctarget" cargo test --offline >"$S/ctest1.log" 2>&1 ); t1=$?
  ( cd "$S/repo" && CARGO_TARGET_DIR="$S/ctarget" cargo test --offline --features serde >"$S/ctest2.log" 2>&1 ); t2=$?
  if [ $t1 -eq 0 ] && [ $t2 -eq 0 ]; then
    echo "$(basename "$PATCH") crate-tests pass"
  else
    echo "$(basename "$PATCH") crate-tests FAIL: $(grep -h -m1 -E '^error|\.\.\. FAILED' "$S/ctest1.log" "$S/ctest2.log" | head -1)"
  fi
  rm -rf "$S/ctarget"
fi
export CARGO_TARGET_DIR="$S/target"
( cd "$S/shadow" && cargo build --offline >"$S/dev.log" 2>&1 ) || { echo "$(basename "$PATCH") - harness-error dev build failed: $(grep -m1 '^error' "$S/dev.log")"; exit 2; }
BIN="$S/target/debug/microsim"; DEVARG=()
if [ $DEVONLY -eq 0 ]; then
  ( cd "$S/shadow" && cargo build --offline --release >"$S/rel.log" 2>&1 ) || { echo "$(basename "$PATCH") - harness-error release build failed"; exit 2; }
  BIN="$S/target/release/microsim"; DEVARG=(--dev-bin "$S/target/debug/microsim")
fi
mkdir -p "$S/vroot/sim/target"
for P in "$@"; do
  out="$("$BIN" check --prop "$P" --tier "${VERIF_TIER:-quick}" --seed "${VERIF_SEED:-1}" --root "$S/vroot" --stop-early 1 ${MUTANT_DIV:+--div $MUTANT_DIV} "${DEVARG[@]}" 2>&1)"; rc=$?
  first="$(echo "$out" | grep -m1 -E '^  C[0-9]+ \[' | cut -c1-220)"
  if [ "$P" = C06 ] && [ $rc -eq 0 ]; then
    # the auxiliary no_std build probe is part of the C06 check (./check runs it through substrates.sh)
    pr="$(VERIF_REPO="$S/repo" VERIF_NOSTD_TARGET="$S/nostd" "$ROOT/selftest/nostd_probe.sh" 2>&1)"; prc=$?
    if [ $prc -eq 1 ]; then rc=1; first="  C06 [needs-std] $pr"; fi
  fi
  case $rc in
    0) echo "$(basename "$PATCH") $P missed" ;;
    1) echo "$(basename "$PATCH") $P DETECTED $first" ;;
    *) echo "$(basename "$PATCH") $P harness-error $(echo "$out" | grep -m1 'harness error')" ;;
  esac
done
