#!/bin/bash
# Confirms one seeded change independently: in a scratch copy of /repo's HEAD the demonstration
# passes without the patch; with the patch the crate's own suite still passes and the
# demonstration fails.   selftest/confirm_seeded.sh /verif/seeded/<id>
D="$(realpath "$1")"; NAME="$(basename "$D")"
S="/root/scratch/confirm-$NAME-$$"; rm -rf "$S"; mkdir -p "$S"; trap 'rm -rf "$S"' EXIT
git -C /repo archive HEAD | tar -x -C "$S"
cd "$S" || exit 2
export CARGO_NET_OFFLINE=true CARGO_TARGET_DIR="$S/target"
FLAGS=""
head -25 "$D/demo.rs" | grep -q -- "--release" && FLAGS="$FLAGS --release"
head -25 "$D/demo.rs" | grep -q -- "serde" && FLAGS="$FLAGS --features serde"
mkdir -p tests; cp "$D/demo.rs" tests/seeded_demo.rs
cargo test --offline $FLAGS --test seeded_demo >"$S/demo0.log" 2>&1; d0=$?
git apply --unsafe-paths "$D/patch.diff" 2>/dev/null || patch -p1 -s < "$D/patch.diff" || { echo "$NAME patch-does-not-apply"; exit 2; }
mv tests/seeded_demo.rs "$S/demo.keep"
cargo test --offline --features serde >"$S/suite.log" 2>&1; s1=$?
cargo test --offline >"$S/suite2.log" 2>&1; s2=$?
mv "$S/demo.keep" tests/seeded_demo.rs
cargo test --offline $FLAGS --test seeded_demo >"$S/demo1.log" 2>&1; d1=$?
echo "$NAME flags='$FLAGS' demo_without_patch=$([ $d0 -eq 0 ] && echo pass || echo FAIL) suite_with_patch=$([ $s1 -eq 0 ] && [ $s2 -eq 0 ] && echo pass || echo FAIL) demo_with_patch=$([ $d1 -ne 0 ] && echo fails-as-claimed || echo PASSES)"
