#!/bin/bash
# Files one legal re-implementation delivered by an independent sub-agent (<dir> holding patch.diff, notes.md) as
# /verif/refactors_seeded/<ID>/ and runs the quick checks of all claimed properties against it in a scratch
# copy (selftest/mutant.sh --crate-tests); no check may raise an alarm. Writes meta.json.
#   selftest/intake_refactor.sh <dir> <ID> "<what unspecified behaviour it changes>"
ROOT="$(cd "$(dirname "${BASH_SOURCE[0]}")/.." && pwd)"
SRC="$1"; ID="$2"; WHAT="$3"
D="$ROOT/refactors_seeded/$ID"; mkdir -p "$D"
cp "$SRC/patch.diff" "$D/"; [ -f "$SRC/notes.md" ] && cp "$SRC/notes.md" "$D/"
res="$("$ROOT/selftest/mutant.sh" --crate-tests "$D/patch.diff" C02 C03 C04 C05 C06 C10 C16 C17 C19 C20 2>&1)"
echo "$res" | sed "s#^patch.diff#$ID#"
python3 - "$D" "$ID" "$WHAT" "$res" <<'PY'
import json, sys, subprocess
d, rid, what, res = sys.argv[1:5]
alarms = [l.split()[1] + ": " + l.split('DETECTED',1)[1].strip()[:200] for l in res.splitlines() if ' DETECTED' in l]
herr = [l.split()[1] for l in res.splitlines() if 'harness-error' in l]
tests = next((l.split('crate-tests',1)[1].strip() for l in res.splitlines() if 'crate-tests' in l), "?")
head = subprocess.check_output(["git","-C","/repo","rev-parse","--short","HEAD"], text=True).strip()
json.dump({
 "origin": f"independent sub-agent given the twenty property statements and a scratch worktree of /repo at {head}; asked for legitimate re-implementations that preserve all properties but change unspecified behaviour; nothing from /verif",
 "changes_unspecified_behaviour": what,
 "crate_suite_with_patch": tests,
 "checks_run": "selftest/mutant.sh --crate-tests (quick tier" + (", a 1/" + __import__("os").environ["MUTANT_DIV"] + " share of its budget" if __import__("os").environ.get("MUTANT_DIV") else "") + ", release + dev builds, all ten claimed properties, scratch copy of /repo)",
 "alarms": alarms,
 "harness_errors": herr,
}, open(f"{d}/meta.json","w"), indent=1)
print(rid, "QUIET" if not alarms and not herr else "ALARM: " + "; ".join(alarms + herr))
PY
