#!/bin/bash
# Runs every patch under /verif/mutants (expected: DETECTED by the check of the property named in
# the file name) and /verif/refactors (expected: missed by every check), a few at a time.
#   selftest/mutants_all.sh [mutants|refactors|seeded|seeded_target|refactors_seeded] [jobs]
# seeded_target: every seeded change against the check of the property it was written to break only.
ROOT="$(cd "$(dirname "${BASH_SOURCE[0]}")/.." && pwd)"
KIND="${1:-mutants}"; JOBS="${2:-4}"
ALL="C02 C03 C04 C05 C06 C10 C16 C17 C19 C20"
run_one() {
  f="$1"; b="$(basename "$f")"
  case "$KIND" in
    mutants) props="${b%%-*}" ;;
    seeded_target) props="$(python3 -c "import json,sys;print(json.load(open(sys.argv[1]))['breaks_property'])" "$(dirname "$f")/meta.json")" ;;
    *) props="$ALL" ;;
  esac
  if [ "$KIND" = seeded ] || [ "$KIND" = seeded_target ] || [ "$KIND" = refactors_seeded ]; then
    "$ROOT/selftest/mutant.sh" "$f" $props | sed "s#^patch.diff#$(basename "$(dirname "$f")")#"
  else
    "$ROOT/selftest/mutant.sh" --crate-tests "$f" $props
  fi
}
export -f run_one; export ROOT KIND ALL
if [ "$KIND" = seeded_target ]; then files=$(ls "$ROOT"/seeded/*/patch.diff); elif [ "$KIND" = seeded ] || [ "$KIND" = refactors_seeded ]; then files=$(ls "$ROOT/$KIND"/*/patch.diff); else files=$(ls "$ROOT/$KIND"/*.patch); fi
# FILTER=<regex> restricts the sweep to matching paths; SUFFIX=<text> is appended to the name of the result file
files=$(echo "$files" | grep -E "${FILTER:-.}")
RES="${RESULTS_DIR:-$ROOT/selftest/results}"; mkdir -p "$RES"; OUTN="$KIND${SUFFIX:-}"
echo "$files" | xargs -P "$JOBS" -I{} bash -c 'run_one {}' | tee "$RES/$OUTN.txt.part"
sort "$RES/$OUTN.txt.part" > "$RES/$OUTN.txt"; rm -f "$RES/$OUTN.txt.part"
