#!/bin/bash
# Re-executes a replay file produced by an auxiliary substrate (miri / asan / nostd).
ROOT="$(cd "$(dirname "${BASH_SOURCE[0]}")/.." && pwd)"; SIM="$ROOT/sim"; F="$(realpath "$1")"
export CARGO_NET_OFFLINE=true
prop="$(grep -o '"property": *"[A-Z0-9]*"' "$F" | head -1 | sed 's/.*"\(C[0-9]*\)"/\1/')"
if grep -q '"substrate": *"nostd"' "$F"; then
  out="$("$ROOT/selftest/nostd_probe.sh")"; rc=$?; echo "$out"
  [ $rc -eq 1 ] && { echo "VIOLATION property=C06 replay=$F"; exit 1; }; exit $rc
fi
python3 - "$F" > "$SIM/target/replay-plan.json" <<'PY'
import json,sys
print(json.dumps(json.load(open(sys.argv[1]))["plan"]))
PY
if grep -q '"substrate": *"miri"' "$F"; then
  tgt="$(grep -o '"target": *"[a-z0-9_-]*"' "$F" | head -1 | sed 's/.*: *"\(.*\)"/\1/')"
  targ=(); [ -n "$tgt" ] && targ=(--target "$tgt")
  ( cd "$SIM" && MIRIFLAGS="-Zmiri-disable-isolation -Zmiri-ignore-leaks" CARGO_TARGET_DIR="$SIM/target/miri" cargo +nightly miri run --offline --no-default-features "${targ[@]}" -- run "$SIM/target/replay-plan.json" ) ; rc=$?
else
  ( cd "$SIM" && CARGO_TARGET_DIR="$SIM/target/asan" RUSTFLAGS="-Zsanitizer=address" cargo +nightly build --offline --release --target x86_64-unknown-linux-gnu >/dev/null 2>&1 ) || exit 2
  ASAN_OPTIONS=detect_leaks=0 "$SIM/target/asan/x86_64-unknown-linux-gnu/release/microsim" run "$SIM/target/replay-plan.json"; rc=$?
fi
if [ $rc -ne 0 ]; then echo "VIOLATION property=$prop replay=$F"; exit 1; fi
echo "no report on this tree"; exit 0
