#!/bin/bash
# Determinism proof of the simulator: for every claimed property, the per-run trace hashes of
# N base plans (and all their enumerated variants) are computed twice in separate processes, in
# the release and in the dev build, and compared; then the merged statistics of a whole check
# are compared between 1 worker and 16 workers.   selftest/determinism.sh [bases]
ROOT="$(cd "$(dirname "${BASH_SOURCE[0]}")/.." && pwd)"; SIM="$ROOT/sim"
N="${1:-3000}"; SEED="${VERIF_SEED:-1}"
"$ROOT/check" build || exit 2
T="$SIM/target/determinism"; rm -rf "$T"; mkdir -p "$T/root1/sim/target" "$T/root16/sim/target"
fail=0
for P in C02 C03 C04 C05 C06 C10 C16 C17 C19 C20; do
  for B in release debug; do
    for R in 1 2; do "$SIM/target/$B/microsim" determinism --prop $P --seed $SEED --bases $N > "$T/$P-$B-$R.txt" & done
  done
  wait
  for B in release debug; do
    if cmp -s "$T/$P-$B-1.txt" "$T/$P-$B-2.txt"; then :; else echo "NONDETERMINISM $P $B: $(diff "$T/$P-$B-1.txt" "$T/$P-$B-2.txt" | head -2 | tr '\n' ' ')"; fail=1; fi
  done
  if cmp -s "$T/$P-release-1.txt" "$T/$P-debug-1.txt"; then prof="release==dev"; else prof="release!=dev ($(diff "$T/$P-release-1.txt" "$T/$P-debug-1.txt" | grep -c '^<') runs differ)"; fi
  cp "$ROOT/known_findings.json" "$T/root1/"; cp "$ROOT/known_findings.json" "$T/root16/"
  "$SIM/target/release/microsim" check --prop $P --seed $SEED --bases $N --jobs 1 --root "$T/root1" >/dev/null 2>&1
  "$SIM/target/release/microsim" check --prop $P --seed $SEED --bases $N --jobs 16 --root "$T/root16" >/dev/null 2>&1
  a="$(python3 -c "import json;c=json.load(open('$T/root1/evidence/$P.json'))['coverage'];print(c['evaluations'],c['simulated_time_events'],c['distinct_trace_hashes'],c['distinct_nontrivial'],c['faults']['injected_panics_fired'])")"
  b="$(python3 -c "import json;c=json.load(open('$T/root16/evidence/$P.json'))['coverage'];print(c['evaluations'],c['simulated_time_events'],c['distinct_trace_hashes'],c['distinct_nontrivial'],c['faults']['injected_panics_fired'])")"
  if [ "$a" != "$b" ]; then echo "NONDETERMINISM $P: 1 worker gives ($a), 16 workers give ($b)"; fail=1; fi
  echo "$P: $N base plans x2 processes x2 profiles identical; $prof; 1 vs 16 workers: ($a) == ($b)"
done
rm -rf "$T"
[ $fail -eq 0 ] && echo "DETERMINISM OK" || { echo "DETERMINISM FAILED"; exit 1; }
