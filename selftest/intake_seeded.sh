#!/bin/bash
# Takes one change delivered by an independent sub-agent (<dir> holding patch.diff, demo.rs, notes.md),
# files it as /verif/seeded/<ID>/, confirms it independently (selftest/confirm_seeded.sh) and runs the
# quick checks of all claimed properties against it in a scratch copy (selftest/mutant.sh); writes meta.json.
#   selftest/intake_seeded.sh <dir> <ID> <PROP> "<needs to manifest>"
ROOT="$(cd "$(dirname "${BASH_SOURCE[0]}")/.." && pwd)"
SRC="$1"; ID="$2"; PROP="$3"; NEEDS="$4"
D="$ROOT/seeded/$ID"; mkdir -p "$D"
cp "$SRC/patch.diff" "$SRC/demo.rs" "$D/"; [ -f "$SRC/notes.md" ] && cp "$SRC/notes.md" "$D/"
conf="$("$ROOT/selftest/confirm_seeded.sh" "$D" 2>&1 | tail -1)"
echo "$conf"
# INTAKE_PROPS restricts the checks that are run (default: all ten)
PROPS="${INTAKE_PROPS:-C02 C03 C04 C05 C06 C10 C16 C17 C19 C20}"
det="$("$ROOT/selftest/mutant.sh" "$D/patch.diff" $PROPS 2>&1)"
echo "$det" | sed "s#^patch.diff#$ID#"
python3 - "$D" "$ID" "$PROP" "$NEEDS" "$conf" "$det" "$PROPS" <<'PY'
import json, sys, subprocess
d, sid, prop, needs, conf, det, props = sys.argv[1:8]
detected = [l.split()[1] for l in det.splitlines() if ' DETECTED' in l]
first = next((l.split('DETECTED',1)[1].strip() for l in det.splitlines() if l.split()[1:2]==[prop] and 'DETECTED' in l), "")
head = subprocess.check_output(["git","-C","/repo","rev-parse","--short","HEAD"], text=True).strip()
meta = {
 "breaks_property": prop,
 "origin": f"independent sub-agent given only the property text and a scratch worktree of /repo at {head}; nothing from /verif",
 "needs_to_manifest": needs,
 "confirmed": {
  "how": f"selftest/confirm_seeded.sh seeded/{sid} (scratch copy of /repo HEAD under /root/scratch, removed afterwards)",
  "demo_passes_without_patch": "demo_without_patch=pass" in conf,
  "crate_suite_passes_with_patch": "suite_with_patch=pass" in conf,
  "demo_fails_with_patch": "demo_with_patch=fails-as-claimed" in conf,
 },
 "checks_run": f"selftest/mutant.sh seeded/{sid}/patch.diff {props} (quick tier, release + dev builds, scratch copy of /repo; /repo itself untouched)",
 "detected_by": detected,
 "first_violation_of_target_check": first,
 "notes": "",
}
json.dump(meta, open(f"{d}/meta.json","w"), indent=1)
print(sid, "target", prop, "DETECTED" if prop in detected else "MISSED", "| all:", ",".join(detected))
PY
