#!/bin/bash
# Auxiliary build probe for the no_std clause of C06 (declared in DESIGN.md as NOT simulation):
# builds the library from /repo (a) with default features and (b) with feature `serde`, both with
# no_std in effect, and lists the crate dependencies recorded in the rlib. With default features
# anything besides core and compiler_builtins is a violation; with `serde` additionally serde*/bincode*
# are expected, but never std or alloc. (c) the library must also build with feature `std`.
ROOT="$(cd "$(dirname "${BASH_SOURCE[0]}")/.." && pwd)"
REPO="${VERIF_REPO:-/repo}"
T="${VERIF_NOSTD_TARGET:-$ROOT/sim/target/nostd}"
export CARGO_NET_OFFLINE=true
mkdir -p "$T"
list() { rustc +nightly -Zls=root "$1" 2>/dev/null | awk '/=External Dependencies=/{f=1;next} f&&NF{print $2}' | sed -E 's/-[0-9a-f]+$//' | sort -u | tr '\n' ' '; }
out=""
for cfg in default serde; do
  flags=""; [ $cfg = serde ] && flags="--features serde"
  if ! ( cd "$REPO" && CARGO_TARGET_DIR="$T/$cfg" cargo +nightly build --offline --lib $flags >"$T/$cfg.log" 2>&1 ); then
    echo "NOSTD harness-error: library build ($cfg features) failed"; tail -5 "$T/$cfg.log"; exit 2
  fi
  deps="$(list "$T/$cfg/debug/libmicromap.rlib")"
  [ -n "$deps" ] || { echo "NOSTD harness-error: could not list dependencies ($cfg)"; exit 2; }
  bad=""
  for d in $deps; do
    case "$d" in
      core|compiler_builtins) ;;
      serde|serde_core|bincode|unty) [ $cfg = serde ] || bad="$bad $d" ;;
      *) bad="$bad $d" ;;
    esac
  done
  if [ -n "$bad" ]; then
    echo "NOSTD needs-std: with $cfg features (no_std in effect) the library links against:$bad (all: $deps)"
    exit 1
  fi
  out="$out[$cfg: $deps] "
done
if ! ( cd "$REPO" && CARGO_TARGET_DIR="$T/std" cargo +nightly build --offline --lib --features std >"$T/std.log" 2>&1 ); then
  echo "NOSTD needs-std: the library does not build with feature std: $(grep -m1 '^error' "$T/std.log")"; exit 1
fi
echo "NOSTD ok: dependencies of the no_std library: $out; builds with feature std too"
exit 0
