#!/bin/bash
# Auxiliary build probe for the no_std clause of C06 (declared in DESIGN.md as NOT simulation):
# builds the library from /repo with default features (no_std in effect) and lists the crate
# dependencies recorded in the rlib; anything besides core and compiler_builtins is a violation.
ROOT="$(cd "$(dirname "${BASH_SOURCE[0]}")/.." && pwd)"
T="$ROOT/sim/target/nostd"
export CARGO_NET_OFFLINE=true
if ! ( cd /repo && CARGO_TARGET_DIR="$T" cargo +nightly build --offline --lib >"$T.log" 2>&1 ); then
  echo "NOSTD harness-error: library build failed"; tail -5 "$T.log"; exit 2
fi
deps="$(rustc +nightly -Zls=root "$T/debug/libmicromap.rlib" 2>/dev/null | awk '/=External Dependencies=/{f=1;next} f&&NF{print $2}' | sed -E 's/-[0-9a-f]+$//' | sort -u | tr '\n' ' ')"
[ -n "$deps" ] || { echo "NOSTD harness-error: could not list dependencies"; exit 2; }
bad=""
for d in $deps; do case "$d" in core|compiler_builtins) ;; *) bad="$bad $d" ;; esac; done
if [ -n "$bad" ]; then
  echo "NOSTD needs-std: with default features the library links against:$bad (all: $deps)"
  exit 1
fi
echo "NOSTD ok: dependencies with default features: $deps"
exit 0
