//! Serde round trips over a caller-supplied transport (C20): a simulator-owned
//! token transport (announced length, entries, permuted delivery, lying size
//! hints), the real bincode codec over a byte buffer, and the real serde_json
//! codec (a self-describing text format that neither announces nor hints a
//! length; also through `serde_json::Value`, which delivers keys in
//! lexicographic order with an exact hint).

use crate::env::{Injected, Watchdog};
use crate::exec::{Pre, World};
use crate::ops_map::win;
use crate::payload::{SimK, SimV};
use crate::plan::{SerdeCfg, T};
use crate::world::{snap_map, snap_set, violate, Cx, Snap};
use micromap::{Map, Set};
use serde::de::{DeserializeSeed, MapAccess, SeqAccess, Visitor};
use serde::ser::{SerializeMap, SerializeSeq};
use serde::{Deserialize, Serialize};
use std::fmt;
use std::panic::{catch_unwind, resume_unwind, AssertUnwindSafe};

#[derive(Debug)]
pub struct TErr(String);
impl fmt::Display for TErr {
    fn fmt(&self, f: &mut fmt::Formatter<'_>) -> fmt::Result {
        f.write_str(&self.0)
    }
}
impl std::error::Error for TErr {}
impl serde::ser::Error for TErr {
    fn custom<T: fmt::Display>(m: T) -> Self {
        TErr(m.to_string())
    }
}
impl serde::de::Error for TErr {
    fn custom<T: fmt::Display>(m: T) -> Self {
        TErr(m.to_string())
    }
}

#[derive(Clone, Debug, PartialEq, Eq)]
pub enum Tok {
    MapStart(Option<usize>),
    SeqStart(Option<usize>),
    U64(u64),
    End,
}

pub struct TokSer {
    pub log: Vec<Tok>,
    pub fail_at: Option<u16>,
}

impl TokSer {
    fn push(&mut self, t: Tok) -> Result<(), TErr> {
        if self.fail_at == Some(self.log.len() as u16) {
            return Err(TErr("injected serializer error".into()));
        }
        self.log.push(t);
        Ok(())
    }
}

macro_rules! unsupported {
    ($($name:ident($($t:ty),*) -> $r:ty;)*) => {
        $(fn $name(self, $(_: $t),*) -> Result<$r, TErr> { Err(TErr(concat!("token transport: ", stringify!($name), " unsupported").into())) })*
    };
}

impl<'a> serde::Serializer for &'a mut TokSer {
    type Ok = ();
    type Error = TErr;
    type SerializeSeq = Self;
    type SerializeTuple = serde::ser::Impossible<(), TErr>;
    type SerializeTupleStruct = serde::ser::Impossible<(), TErr>;
    type SerializeTupleVariant = serde::ser::Impossible<(), TErr>;
    type SerializeMap = Self;
    type SerializeStruct = serde::ser::Impossible<(), TErr>;
    type SerializeStructVariant = serde::ser::Impossible<(), TErr>;
    fn serialize_u64(self, v: u64) -> Result<(), TErr> {
        self.push(Tok::U64(v))
    }
    fn serialize_seq(self, len: Option<usize>) -> Result<Self, TErr> {
        self.push(Tok::SeqStart(len))?;
        Ok(self)
    }
    fn serialize_map(self, len: Option<usize>) -> Result<Self, TErr> {
        self.push(Tok::MapStart(len))?;
        Ok(self)
    }
    unsupported! {
        serialize_bool(bool) -> (); serialize_i8(i8) -> (); serialize_i16(i16) -> (); serialize_i32(i32) -> (); serialize_i64(i64) -> ();
        serialize_u8(u8) -> (); serialize_u16(u16) -> (); serialize_u32(u32) -> (); serialize_f32(f32) -> (); serialize_f64(f64) -> ();
        serialize_char(char) -> (); serialize_str(&str) -> (); serialize_bytes(&[u8]) -> (); serialize_none() -> (); serialize_unit() -> ();
        serialize_unit_struct(&'static str) -> (); serialize_unit_variant(&'static str, u32, &'static str) -> ();
        serialize_tuple(usize) -> Self::SerializeTuple; serialize_tuple_struct(&'static str, usize) -> Self::SerializeTupleStruct;
        serialize_tuple_variant(&'static str, u32, &'static str, usize) -> Self::SerializeTupleVariant;
        serialize_struct(&'static str, usize) -> Self::SerializeStruct;
        serialize_struct_variant(&'static str, u32, &'static str, usize) -> Self::SerializeStructVariant;
    }
    fn serialize_some<T: ?Sized + Serialize>(self, _: &T) -> Result<(), TErr> {
        Err(TErr("unsupported".into()))
    }
    fn serialize_newtype_struct<T: ?Sized + Serialize>(self, _: &'static str, _: &T) -> Result<(), TErr> {
        Err(TErr("unsupported".into()))
    }
    fn serialize_newtype_variant<T: ?Sized + Serialize>(self, _: &'static str, _: u32, _: &'static str, _: &T) -> Result<(), TErr> {
        Err(TErr("unsupported".into()))
    }
}

impl SerializeSeq for &mut TokSer {
    type Ok = ();
    type Error = TErr;
    fn serialize_element<T: ?Sized + Serialize>(&mut self, v: &T) -> Result<(), TErr> {
        v.serialize(&mut **self)
    }
    fn end(self) -> Result<(), TErr> {
        self.push(Tok::End)
    }
}

impl SerializeMap for &mut TokSer {
    type Ok = ();
    type Error = TErr;
    fn serialize_key<T: ?Sized + Serialize>(&mut self, k: &T) -> Result<(), TErr> {
        k.serialize(&mut **self)
    }
    fn serialize_value<T: ?Sized + Serialize>(&mut self, v: &T) -> Result<(), TErr> {
        v.serialize(&mut **self)
    }
    fn end(self) -> Result<(), TErr> {
        self.push(Tok::End)
    }
}

struct U64De(u64);
impl<'de> serde::Deserializer<'de> for U64De {
    type Error = TErr;
    fn deserialize_any<V: Visitor<'de>>(self, v: V) -> Result<V::Value, TErr> {
        v.visit_u64(self.0)
    }
    serde::forward_to_deserialize_any! {
        bool i8 i16 i32 i64 i128 u8 u16 u32 u64 u128 f32 f64 char str string bytes byte_buf option unit unit_struct
        newtype_struct seq tuple tuple_struct map struct enum identifier ignored_any
    }
}

pub struct TokDe {
    pub entries: Vec<(u64, u64)>,
    pub pos: usize,
    pub hint: Option<usize>,
    pub pending_val: Option<u64>,
    /// report an error instead of delivering this entry
    pub fail_at: Option<u16>,
    /// the access was polled until it answered `None`: a marker-terminated format (one that gives no
    /// size hint) consumes its end marker only then, and finds trailing data otherwise
    pub polled_end: bool,
}

impl<'de> serde::Deserializer<'de> for &mut TokDe {
    type Error = TErr;
    fn deserialize_any<V: Visitor<'de>>(self, _: V) -> Result<V::Value, TErr> {
        Err(TErr("token transport is not self-describing".into()))
    }
    fn deserialize_map<V: Visitor<'de>>(self, v: V) -> Result<V::Value, TErr> {
        v.visit_map(self)
    }
    fn deserialize_seq<V: Visitor<'de>>(self, v: V) -> Result<V::Value, TErr> {
        v.visit_seq(self)
    }
    serde::forward_to_deserialize_any! {
        bool i8 i16 i32 i64 i128 u8 u16 u32 u64 u128 f32 f64 char str string bytes byte_buf option unit unit_struct
        newtype_struct tuple tuple_struct struct enum identifier ignored_any
    }
}

impl<'de> MapAccess<'de> for &mut TokDe {
    type Error = TErr;
    fn next_key_seed<S: DeserializeSeed<'de>>(&mut self, seed: S) -> Result<Option<S::Value>, TErr> {
        if self.fail_at == Some(self.pos as u16) {
            return Err(TErr("injected transport error".into()));
        }
        if self.pos >= self.entries.len() {
            self.polled_end = true;
            return Ok(None);
        }
        let (k, v) = self.entries[self.pos];
        self.pos += 1;
        self.pending_val = Some(v);
        seed.deserialize(U64De(k)).map(Some)
    }
    fn next_value_seed<S: DeserializeSeed<'de>>(&mut self, seed: S) -> Result<S::Value, TErr> {
        match self.pending_val.take() {
            Some(v) => seed.deserialize(U64De(v)),
            None => Err(TErr("value requested without a key".into())),
        }
    }
    fn size_hint(&self) -> Option<usize> {
        self.hint
    }
}

impl<'de> SeqAccess<'de> for &mut TokDe {
    type Error = TErr;
    fn next_element_seed<S: DeserializeSeed<'de>>(&mut self, seed: S) -> Result<Option<S::Value>, TErr> {
        if self.fail_at == Some(self.pos as u16) {
            return Err(TErr("injected transport error".into()));
        }
        if self.pos >= self.entries.len() {
            self.polled_end = true;
            return Ok(None);
        }
        let (k, _) = self.entries[self.pos];
        self.pos += 1;
        seed.deserialize(U64De(k)).map(Some)
    }
    fn size_hint(&self) -> Option<usize> {
        self.hint
    }
}

const ID_MASK: u64 = 0xff_ffff_ffff;

fn permute(mut e: Vec<(u64, u64)>, p: u8) -> Vec<(u64, u64)> {
    if !e.is_empty() {
        let r = (p as usize / 2) % e.len();
        e.rotate_left(r);
    }
    if p % 2 == 1 {
        e.reverse();
    }
    e
}

fn hint_of(h: u8, n: usize) -> Option<usize> {
    match h {
        0 => Some(n),
        1 => None,
        2 => Some(0),
        _ => Some(n * 1000 + 12345),
    }
}

/// Entry accounting over the emitted token list. Returns the emitted (key word, value word) entries.
fn account(what: &str, toks: &[Tok], s: &Snap, len: usize, is_map: bool, anon_k: bool, anon_v: bool) -> Option<Vec<(u64, u64)>> {
    let bad = |d: String| {
        violate("entry-accounting", format!("{what}: {d}"));
        None
    };
    let announced = match toks.first() {
        Some(Tok::MapStart(n)) if is_map => *n,
        Some(Tok::SeqStart(n)) if !is_map => *n,
        t => return bad(format!("the stream starts with {t:?}")),
    };
    // announcing no length at all is the serializer's choice; announcing a wrong one is not
    if announced.is_some() && announced != Some(len) {
        return bad(format!("announced length {announced:?} but len() is {len}"));
    }
    if toks.last() != Some(&Tok::End) {
        return bad("the stream is not terminated".into());
    }
    let words: Vec<u64> = toks[1..toks.len() - 1].iter().filter_map(|t| if let Tok::U64(w) = t { Some(*w) } else { None }).collect();
    if words.len() != toks.len() - 2 {
        return bad("unexpected structure tokens inside the stream".into());
    }
    let per = if is_map { 2 } else { 1 };
    if words.len() != len * per {
        return bad(format!("{} entries emitted but len() is {len}", words.len() / per));
    }
    let mut ents = Vec::new();
    for ch in words.chunks(per) {
        let (kw, vw) = (ch[0], if is_map { ch[1] } else { 0 });
        let (kid, vid) = (kw & ID_MASK, vw & ID_MASK);
        let found = s.iter().any(|e| (anon_k || e.kid == kid) && (!is_map || anon_v || e.vid == vid));
        if !found {
            return bad(format!("an emitted entry (key #{kid}, value #{vid}) is not one of the container's"));
        }
        if !anon_k && ents.iter().any(|(k, _): &(u64, u64)| k & ID_MASK == kid) {
            return bad(format!("key #{kid} emitted twice"));
        }
        ents.push((kw, vw));
    }
    Some(ents)
}

fn content(s: &Snap, with_v: bool) -> Vec<(u32, u64)> {
    let mut v: Vec<(u32, u64)> = s.iter().map(|e| (e.kclass, if with_v { e.vpay & 0xff_ffff } else { 0 })).collect();
    v.sort_unstable();
    v
}

fn sim_panic(p: &Box<dyn std::any::Any + Send>) -> bool {
    p.is::<Injected>() || p.is::<Watchdog>()
}

/// The entries of a JSON object exactly as they appear in the text (order and repeats preserved).
struct JsonPairs(Vec<(u64, u64)>);
impl<'de> Deserialize<'de> for JsonPairs {
    fn deserialize<D: serde::Deserializer<'de>>(d: D) -> Result<Self, D::Error> {
        struct Vis;
        impl<'de> Visitor<'de> for Vis {
            type Value = JsonPairs;
            fn expecting(&self, f: &mut fmt::Formatter<'_>) -> fmt::Result {
                f.write_str("a JSON object")
            }
            fn visit_map<A: MapAccess<'de>>(self, mut a: A) -> Result<JsonPairs, A::Error> {
                let mut v = Vec::new();
                while let Some(e) = a.next_entry::<u64, u64>()? {
                    v.push(e);
                }
                Ok(JsonPairs(v))
            }
        }
        d.deserialize_map(Vis)
    }
}

fn json_text(ents: &[(u64, u64)], is_map: bool, spaced: bool) -> String {
    let (open, close) = if is_map { ('{', '}') } else { ('[', ']') };
    let mut t = String::new();
    t.push(open);
    for (i, (k, v)) in ents.iter().enumerate() {
        if i > 0 {
            t.push(',');
        }
        if spaced {
            t.push_str("\n  ");
        }
        if is_map {
            t.push_str(&format!("\"{k}\":{}{v}", if spaced { " " } else { "" }));
        } else {
            t.push_str(&format!("{k}"));
        }
    }
    if spaced {
        t.push('\n');
    }
    t.push(close);
    t
}

/// The JSON leg shared by maps and sets: encode with the real serde_json, account for the emitted entries,
/// let the transport reorder / duplicate / truncate / corrupt the text, decode with the real serde_json.
/// `mode` 1: text as emitted order-permuted, compact; 2: the same with whitespace, read through `from_reader`;
/// 3: through `serde_json::Value` (keys in lexicographic order, exact size hint).
fn json_leg<S: Serialize, D: for<'de> Deserialize<'de>, K: SimK, V: SimV>(what: &str, src: &S, cx: &mut Cx<K, V>, cfg: &SerdeCfg, pre: &Snap, len: usize, is_map: bool, prefill: impl FnOnce() -> D) -> Option<Result<D, String>> {
    cx.probe("serde_json_transport");
    let text = match serde_json::to_string(src) {
        Ok(t) => t,
        Err(e) => {
            violate("round-trip", format!("serde_json could not encode the {what}: {e}"));
            return None;
        }
    };
    // entry accounting on the emitted text
    let emitted: Vec<(u64, u64)> = if is_map {
        match serde_json::from_str::<JsonPairs>(&text) {
            Ok(p) => p.0,
            Err(e) => {
                violate("entry-accounting", format!("{what}: the emitted JSON text {text:?} is not an object of integers: {e}"));
                return None;
            }
        }
    } else {
        match serde_json::from_str::<Vec<u64>>(&text) {
            Ok(p) => p.into_iter().map(|k| (k, 0)).collect(),
            Err(e) => {
                violate("entry-accounting", format!("{what}: the emitted JSON text {text:?} is not an array of integers: {e}"));
                return None;
            }
        }
    };
    if emitted.len() != len {
        violate("entry-accounting", format!("{what}: {} entries emitted as JSON but len() is {len}", emitted.len()));
        return None;
    }
    let mut seen: Vec<u64> = Vec::new();
    for (kw, vw) in &emitted {
        let (kid, vid) = (kw & ID_MASK, vw & ID_MASK);
        if !pre.iter().any(|e| (K::ANON || e.kid == kid) && (!is_map || V::ANON || e.vid == vid)) {
            violate("entry-accounting", format!("{what}: an emitted entry (key #{kid}, value #{vid}) is not one of the container's"));
            return None;
        }
        if !K::ANON && seen.contains(&kid) {
            violate("entry-accounting", format!("{what}: key #{kid} emitted twice"));
            return None;
        }
        seen.push(kid);
    }
    let mut ents = permute(emitted, cfg.permute);
    if let Some(d) = cfg.dup_at {
        if !ents.is_empty() {
            let e = ents[d as usize % ents.len()];
            let at = (d as usize / 3) % (ents.len() + 1);
            ents.insert(at, e);
            cx.probe("serde_entry_duplicated");
        }
    }
    let mut bytes = json_text(&ents, is_map, cfg.json == 2).into_bytes();
    if let Some(t) = cfg.truncate {
        bytes.truncate(t as usize);
    }
    if let Some(b) = cfg.flip_bit {
        if !bytes.is_empty() {
            let b = b as usize % (bytes.len() * 8);
            bytes[b / 8] ^= 1 << (b % 8);
        }
    }
    let in_place = cfg.in_place;
    let mode = cfg.json;
    let r = catch_unwind(AssertUnwindSafe(move || -> Result<D, String> {
        if mode == 3 {
            let v: serde_json::Value = serde_json::from_slice(&bytes).map_err(|e| e.to_string())?;
            if in_place {
                let mut target = prefill();
                D::deserialize_in_place(v, &mut target).map_err(|e| e.to_string())?;
                Ok(target)
            } else {
                serde_json::from_value::<D>(v).map_err(|e| e.to_string())
            }
        } else if in_place {
            let mut target = prefill();
            let mut de = serde_json::Deserializer::from_slice(&bytes);
            D::deserialize_in_place(&mut de, &mut target).map_err(|e| e.to_string())?;
            de.end().map_err(|e| e.to_string())?;
            Ok(target)
        } else if mode == 2 {
            serde_json::from_reader::<_, D>(&bytes[..]).map_err(|e| e.to_string())
        } else {
            serde_json::from_slice::<D>(&bytes).map_err(|e| e.to_string())
        }
    }));
    Some(match r {
        Ok(Ok(d)) => Ok(d),
        Ok(Err(e)) => Err(format!("serde_json decode error: {e}")),
        Err(p) => {
            if sim_panic(&p) {
                resume_unwind(p);
            }
            Err("serde_json decode panicked".into())
        }
    })
}

pub fn map_roundtrip<K: SimK, V: SimV, const C1: usize, const C2: usize>(m: &Map<K, V, C1>, cx: &mut Cx<K, V>, cfg: &SerdeCfg, pre: &Snap) {
    let aw = cx.cfg.alloc_window && cfg.bincode;
    let json = cfg.json > 0 && !cfg.bincode;
    // (the JSON codec has no announced length, no hint and no token-level error injection: only what acts on the text counts)
    let diag = cfg.truncate.is_some() || cfg.flip_bit.is_some() || cfg.dup_at.is_some() || (!json && (cfg.ser_fail_at.is_some() || cfg.de_fail_at.is_some() || (!cfg.bincode && cfg.hint >= 2)));
    // (an unusual or under-reporting size hint is not a transport fault here: overflow must be loud whatever the hint says)
    let no_transport_fault = cfg.truncate.is_none() && cfg.flip_bit.is_none() && cfg.ser_fail_at.is_none() && cfg.de_fail_at.is_none() && cfg.dup_at.is_none();
    let len = pre.len();
    if len > C2 {
        // more entries than the target can hold: decoding may panic or report an error, never succeed
        if no_transport_fault && !cx.lying && !K::ANON && !cfg.bincode {
            cx.probe("serde_target_too_small");
            let mut ser = TokSer { log: Vec::new(), fail_at: None };
            if m.serialize(&mut ser).is_ok() {
                if let Some(ents) = account("Map::serialize", &ser.log, pre, m.len(), true, K::ANON, V::ANON) {
                    let mut de = TokDe { hint: hint_of(cfg.hint % 3, ents.len()), entries: ents, pos: 0, pending_val: None, fail_at: None, polled_end: false };
                    let r = catch_unwind(AssertUnwindSafe(|| Map::<K, V, C2>::deserialize(&mut de)));
                    match r {
                        Ok(Ok(d)) => {
                            violate("overflow-swallowed", format!("decoding {len} distinct keys into a map of capacity {C2} returned Ok with {} entries", d.len()));
                            drop(d);
                        }
                        Ok(Err(_)) => {}
                        Err(p) => {
                            if sim_panic(&p) {
                                resume_unwind(p);
                            }
                        }
                    }
                }
            }
        }
        return;
    }
    if C2 == len {
        cx.probe("serde_target_capacity_equals_len");
    }
    if diag {
        cx.probe("serde_transport_fault_injected");
    }
    let decoded: Result<Map<K, V, C2>, String>;
    if cfg.json > 0 && !cfg.bincode {
        let in_place_fill = cfg.permute as usize % 3;
        let Some(r) = json_leg::<_, Map<K, V, C2>, K, V>("map", m, cx, cfg, pre, len, true, move || {
            let mut target: Map<K, V, C2> = Map::new();
            for i in 0..in_place_fill.min(C2) {
                target.insert(K::make(200 + i as u32, 0), V::make(77, 0));
            }
            target
        }) else {
            return;
        };
        decoded = r;
    } else if cfg.bincode {
        let bc = bincode::config::legacy();
        let mut buf = [0u8; 8192];
        let n = match win!(aw, bincode::serde::encode_into_slice(m, &mut buf, bc)) {
            Ok(n) => n,
            Err(e) => {
                violate("round-trip", format!("bincode could not encode the map: {e}"));
                return;
            }
        };
        if n != 8 + 16 * len || u64::from_le_bytes(buf[..8].try_into().unwrap()) != len as u64 {
            violate("entry-accounting", format!("bincode stream has {n} bytes / announces {} entries for a map with len() {len}", u64::from_le_bytes(buf[..8].try_into().unwrap())));
        }
        let mut end = n;
        if let Some(t) = cfg.truncate {
            end = (t as usize).min(n);
        }
        if let Some(b) = cfg.flip_bit {
            let b = b as usize % (n * 8).max(1);
            if n > 0 {
                buf[b / 8] ^= 1 << (b % 8);
            }
        }
        if let Some(d) = cfg.dup_at {
            // the entry is delivered twice: appended once more, announced length bumped
            if len > 0 && end == n && n + 16 <= buf.len() {
                let i = d as usize % len;
                let (a, b) = (8 + 16 * i, 8 + 16 * i + 16);
                buf.copy_within(a..b, n);
                buf[..8].copy_from_slice(&(len as u64 + 1).to_le_bytes());
                end = n + 16;
                cx.probe("serde_entry_duplicated");
            }
        }
        let r = catch_unwind(AssertUnwindSafe(|| bincode::serde::decode_from_slice::<Map<K, V, C2>, _>(&buf[..end], bc)));
        decoded = match r {
            Ok(Ok((d, _))) => Ok(d),
            Ok(Err(e)) => Err(format!("decode error: {e}")),
            Err(p) => {
                if sim_panic(&p) {
                    resume_unwind(p);
                }
                Err("decode panicked".into())
            }
        };
    } else {
        let mut ser = TokSer { log: Vec::new(), fail_at: cfg.ser_fail_at };
        let r = m.serialize(&mut ser);
        if r.is_err() {
            if cfg.ser_fail_at.is_none() {
                violate("round-trip", format!("serialising into a healthy transport failed: {:?}", r.err()));
            }
            return;
        }
        let Some(ents) = account("Map::serialize", &ser.log, pre, m.len(), true, K::ANON, V::ANON) else { return };
        let mut ents = permute(ents, cfg.permute);
        if let Some(t) = cfg.truncate {
            ents.truncate(t as usize);
        }
        if let Some(b) = cfg.flip_bit {
            if !ents.is_empty() {
                let i = b as usize % ents.len();
                ents[i].0 ^= 1 << (40 + (b % 4));
            }
        }
        if let Some(d) = cfg.dup_at {
            if !ents.is_empty() {
                let e = ents[d as usize % ents.len()];
                let at = (d as usize / 3) % (ents.len() + 1);
                ents.insert(at, e);
                cx.probe("serde_entry_duplicated");
            }
        }
        let mut de = TokDe { hint: hint_of(cfg.hint, ents.len()), entries: ents, pos: 0, pending_val: None, fail_at: cfg.de_fail_at, polled_end: false };
        let r = if cfg.in_place {
            // the target already holds entries (some with keys the source lacks): they must be gone afterwards
            cx.probe("serde_deserialize_in_place");
            let mut target: Map<K, V, C2> = Map::new();
            for i in 0..(cfg.permute as usize % 3).min(C2) {
                target.insert(K::make(200 + i as u32, 0), V::make(77, 0));
            }
            catch_unwind(AssertUnwindSafe(|| {
                let mut target = target;
                <Map<K, V, C2> as Deserialize>::deserialize_in_place(&mut de, &mut target).map(|()| target)
            }))
        } else {
            catch_unwind(AssertUnwindSafe(|| Map::<K, V, C2>::deserialize(&mut de)))
        };
        decoded = match r {
            // a transport that gave no size hint is marker-terminated: a visitor that returns without having
            // polled it to the end leaves the marker unread, and the transport reports trailing data
            Ok(Ok(d)) if de.hint.is_none() && !de.polled_end => {
                cx.probe("serde_end_marker_left_unread");
                drop(d);
                Err("the visitor returned without polling the hint-less transport to its end: the end marker is left unread (trailing data)".into())
            }
            Ok(Ok(d)) => Ok(d),
            Ok(Err(e)) => Err(format!("deserialize error: {e}")),
            Err(p) => {
                if sim_panic(&p) {
                    resume_unwind(p);
                }
                Err("deserialize panicked".into())
            }
        };
    }
    match decoded {
        Ok(d) => {
            crate::world::observing(|| crate::world::wf_map("decoded map", &d, cx.lying));
            if !diag && !cx.lying {
                let e1 = d == *m;
                let e2 = *m == d;
                let (c1, c2) = (content(&snap_map(&d), !V::ANON), content(pre, !V::ANON));
                if !e1 || !e2 || c1 != c2 {
                    violate("round-trip", format!("decoded map differs from the original (decoded==original: {e1}, original==decoded: {e2}, contents {c1:?} vs {c2:?}) into capacity {C2}"));
                }
            }
            drop(d);
        }
        Err(why) => {
            if !diag && !cx.lying {
                violate("round-trip", format!("a map with {len} entries could not be decoded into capacity {C2}: {why}"));
            }
        }
    }
}

pub fn set_roundtrip<K: SimK, V: SimV, const C1: usize, const C2: usize>(s: &Set<K, C1>, cx: &mut Cx<K, V>, cfg: &SerdeCfg, pre: &Snap) {
    let aw = cx.cfg.alloc_window && cfg.bincode;
    let json = cfg.json > 0 && !cfg.bincode;
    // (the JSON codec has no announced length, no hint and no token-level error injection: only what acts on the text counts)
    let diag = cfg.truncate.is_some() || cfg.flip_bit.is_some() || cfg.dup_at.is_some() || (!json && (cfg.ser_fail_at.is_some() || cfg.de_fail_at.is_some() || (!cfg.bincode && cfg.hint >= 2)));
    // (an unusual or under-reporting size hint is not a transport fault here: overflow must be loud whatever the hint says)
    let no_transport_fault = cfg.truncate.is_none() && cfg.flip_bit.is_none() && cfg.ser_fail_at.is_none() && cfg.de_fail_at.is_none() && cfg.dup_at.is_none();
    let len = pre.len();
    if len > C2 {
        if no_transport_fault && !cx.lying && !K::ANON && !cfg.bincode {
            cx.probe("serde_target_too_small");
            let mut ser = TokSer { log: Vec::new(), fail_at: None };
            if s.serialize(&mut ser).is_ok() {
                if let Some(ents) = account("Set::serialize", &ser.log, pre, s.len(), false, K::ANON, true) {
                    let mut de = TokDe { hint: hint_of(cfg.hint % 3, ents.len()), entries: ents, pos: 0, pending_val: None, fail_at: None, polled_end: false };
                    let r = catch_unwind(AssertUnwindSafe(|| Set::<K, C2>::deserialize(&mut de)));
                    match r {
                        Ok(Ok(d)) => {
                            violate("overflow-swallowed", format!("decoding {len} distinct elements into a set of capacity {C2} returned Ok with {} elements", d.len()));
                            drop(d);
                        }
                        Ok(Err(_)) => {}
                        Err(p) => {
                            if sim_panic(&p) {
                                resume_unwind(p);
                            }
                        }
                    }
                }
            }
        }
        return;
    }
    if diag {
        cx.probe("serde_transport_fault_injected");
    }
    let decoded: Result<Set<K, C2>, String>;
    if cfg.json > 0 && !cfg.bincode {
        let in_place_fill = cfg.permute as usize % 3;
        let Some(r) = json_leg::<_, Set<K, C2>, K, V>("set", s, cx, cfg, pre, len, false, move || {
            let mut target: Set<K, C2> = Set::new();
            for i in 0..in_place_fill.min(C2) {
                target.insert(K::make(200 + i as u32, 0));
            }
            target
        }) else {
            return;
        };
        decoded = r;
    } else if cfg.bincode {
        let bc = bincode::config::legacy();
        let mut buf = [0u8; 8192];
        let n = match win!(aw, bincode::serde::encode_into_slice(s, &mut buf, bc)) {
            Ok(n) => n,
            Err(e) => {
                violate("round-trip", format!("bincode could not encode the set: {e}"));
                return;
            }
        };
        if n != 8 + 8 * len || u64::from_le_bytes(buf[..8].try_into().unwrap()) != len as u64 {
            violate("entry-accounting", format!("bincode stream has {n} bytes / announces {} elements for a set with len() {len}", u64::from_le_bytes(buf[..8].try_into().unwrap())));
        }
        let mut end = n;
        if let Some(t) = cfg.truncate {
            end = (t as usize).min(n);
        }
        if let Some(b) = cfg.flip_bit {
            let b = b as usize % (n * 8).max(1);
            if n > 0 {
                buf[b / 8] ^= 1 << (b % 8);
            }
        }
        if let Some(d) = cfg.dup_at {
            if len > 0 && end == n && n + 8 <= buf.len() {
                let i = d as usize % len;
                let (a, b) = (8 + 8 * i, 8 + 8 * i + 8);
                buf.copy_within(a..b, n);
                buf[..8].copy_from_slice(&(len as u64 + 1).to_le_bytes());
                end = n + 8;
                cx.probe("serde_entry_duplicated");
            }
        }
        let r = catch_unwind(AssertUnwindSafe(|| bincode::serde::decode_from_slice::<Set<K, C2>, _>(&buf[..end], bc)));
        decoded = match r {
            Ok(Ok((d, _))) => Ok(d),
            Ok(Err(e)) => Err(format!("decode error: {e}")),
            Err(p) => {
                if sim_panic(&p) {
                    resume_unwind(p);
                }
                Err("decode panicked".into())
            }
        };
    } else {
        let mut ser = TokSer { log: Vec::new(), fail_at: cfg.ser_fail_at };
        let r = s.serialize(&mut ser);
        if r.is_err() {
            if cfg.ser_fail_at.is_none() {
                violate("round-trip", format!("serialising into a healthy transport failed: {:?}", r.err()));
            }
            return;
        }
        let Some(ents) = account("Set::serialize", &ser.log, pre, s.len(), false, K::ANON, true) else { return };
        let mut ents = permute(ents, cfg.permute);
        if let Some(t) = cfg.truncate {
            ents.truncate(t as usize);
        }
        if let Some(d) = cfg.dup_at {
            if !ents.is_empty() {
                let e = ents[d as usize % ents.len()];
                let at = (d as usize / 3) % (ents.len() + 1);
                ents.insert(at, e);
                cx.probe("serde_entry_duplicated");
            }
        }
        let mut de = TokDe { hint: hint_of(cfg.hint, ents.len()), entries: ents, pos: 0, pending_val: None, fail_at: cfg.de_fail_at, polled_end: false };
        let r = if cfg.in_place {
            cx.probe("serde_deserialize_in_place");
            let mut target: Set<K, C2> = Set::new();
            for i in 0..(cfg.permute as usize % 3).min(C2) {
                target.insert(K::make(200 + i as u32, 0));
            }
            catch_unwind(AssertUnwindSafe(|| {
                let mut target = target;
                <Set<K, C2> as Deserialize>::deserialize_in_place(&mut de, &mut target).map(|()| target)
            }))
        } else {
            catch_unwind(AssertUnwindSafe(|| Set::<K, C2>::deserialize(&mut de)))
        };
        decoded = match r {
            // a transport that gave no size hint is marker-terminated: a visitor that returns without having
            // polled it to the end leaves the marker unread, and the transport reports trailing data
            Ok(Ok(d)) if de.hint.is_none() && !de.polled_end => {
                cx.probe("serde_end_marker_left_unread");
                drop(d);
                Err("the visitor returned without polling the hint-less transport to its end: the end marker is left unread (trailing data)".into())
            }
            Ok(Ok(d)) => Ok(d),
            Ok(Err(e)) => Err(format!("deserialize error: {e}")),
            Err(p) => {
                if sim_panic(&p) {
                    resume_unwind(p);
                }
                Err("deserialize panicked".into())
            }
        };
    }
    match decoded {
        Ok(d) => {
            crate::world::observing(|| crate::world::wf_set("decoded set", &d, cx.lying));
            if !diag && !cx.lying {
                let e1 = d == *s;
                let e2 = *s == d;
                let (c1, c2) = (content(&snap_set(&d), false), content(pre, false));
                if !e1 || !e2 || c1 != c2 {
                    violate("round-trip", format!("decoded set differs from the original (decoded==original: {e1}, original==decoded: {e2}, contents {c1:?} vs {c2:?}) into capacity {C2}"));
                }
            }
            drop(d);
        }
        Err(why) => {
            if !diag && !cx.lying {
                violate("round-trip", format!("a set with {len} elements could not be decoded into capacity {C2}: {why}"));
            }
        }
    }
}

pub fn serde_op<K: SimK, V: SimV, const N: usize, const M: usize>(w: &mut World<K, V, N, M>, t: T, set: bool, cfg: &SerdeCfg, pre: &Pre) {
    let cx = &mut w.cx;
    match (set, t, cfg.into_other) {
        (false, T::A, false) => map_roundtrip::<K, V, N, N>(&w.ma.g.val, cx, cfg, &pre.ma),
        (false, T::A, true) => map_roundtrip::<K, V, N, M>(&w.ma.g.val, cx, cfg, &pre.ma),
        (false, T::B, false) => map_roundtrip::<K, V, M, M>(&w.mb.g.val, cx, cfg, &pre.mb),
        (false, T::B, true) => map_roundtrip::<K, V, M, N>(&w.mb.g.val, cx, cfg, &pre.mb),
        (true, T::A, false) => set_roundtrip::<K, V, N, N>(&w.sa.g.val, cx, cfg, &pre.sa),
        (true, T::A, true) => set_roundtrip::<K, V, N, M>(&w.sa.g.val, cx, cfg, &pre.sa),
        (true, T::B, false) => set_roundtrip::<K, V, M, M>(&w.sb.g.val, cx, cfg, &pre.sb),
        (true, T::B, true) => set_roundtrip::<K, V, M, N>(&w.sb.g.val, cx, cfg, &pre.sb),
    }
}
