//! Seeded plan generation. One integer in, one explicit plan out; swarm style:
//! every run draws its own shape, capacities, universe, history length, op mix.

use crate::env::{mix, Lie, SplitMix};
use crate::plan::*;

#[derive(Clone, Copy, PartialEq, Eq, Debug)]
pub enum Kind {
    Insert,
    InsertKv,
    Checked,
    Unchecked,
    Lookup,
    Mutate,
    Remove,
    Retain,
    Clear,
    Drain,
    Consume,
    Iter,
    Clone,
    Eq,
    FromIter,
    FromArr,
    Entry,
    Disjoint,
    SInsert,
    SLookup,
    SRemove,
    SRetain,
    SClear,
    SDrain,
    SConsume,
    SIter,
    SClone,
    SEq,
    SFromIter,
    SFromArr,
    SExtend,
    SAlg,
    SRel,
    SSub,
    Fmt,
    FmtIter,
    Serde,
    Fill,
    Overflow,
    Relocate,
    WithCap,
    DropNew,
    DisjointUnchecked,
    DefaultIter,
    SDiffRef,
    SExtendRef,
    /// not in ALL_KINDS: only profiles that ask for it get it
    BigDisjoint,
    FmtIrreflexive,
    Transfer,
}

pub const ALL_KINDS: [Kind; 47] = [
    Kind::Insert,
    Kind::InsertKv,
    Kind::Checked,
    Kind::Unchecked,
    Kind::Lookup,
    Kind::Mutate,
    Kind::Remove,
    Kind::Retain,
    Kind::Clear,
    Kind::Drain,
    Kind::Consume,
    Kind::Iter,
    Kind::Clone,
    Kind::Eq,
    Kind::FromIter,
    Kind::FromArr,
    Kind::Entry,
    Kind::Disjoint,
    Kind::SInsert,
    Kind::SLookup,
    Kind::SRemove,
    Kind::SRetain,
    Kind::SClear,
    Kind::SDrain,
    Kind::SConsume,
    Kind::SIter,
    Kind::SClone,
    Kind::SEq,
    Kind::SFromIter,
    Kind::SFromArr,
    Kind::SExtend,
    Kind::SAlg,
    Kind::SRel,
    Kind::SSub,
    Kind::Fmt,
    Kind::FmtIter,
    Kind::Serde,
    Kind::Fill,
    Kind::Overflow,
    Kind::Relocate,
    Kind::WithCap,
    Kind::DropNew,
    Kind::DisjointUnchecked,
    Kind::DefaultIter,
    Kind::SDiffRef,
    Kind::SExtendRef,
    Kind::Transfer,
];

/// Per-property generation profile.
#[derive(Clone)]
pub struct Profile {
    /// (kind, weight)
    pub weights: Vec<(Kind, u32)>,
    pub min_ops: usize,
    pub max_ops: usize,
    /// allow `mem::forget` endings
    pub forget: bool,
    /// allow failing sinks
    pub sink_faults: bool,
    /// allow unusual source behaviour
    pub src_tricks: bool,
    /// incorrect size hints too (only memory safety is judged under them)
    pub bad_hints: bool,
    /// only shapes that never allocate
    pub no_heap_shapes: bool,
    pub alloc_window: bool,
    pub lies: bool,
    /// serde diagnostics (truncate / flip / serializer error)
    pub serde_faults: bool,
}

impl Profile {
    pub fn base(weights: Vec<(Kind, u32)>) -> Self {
        Profile { weights, min_ops: 1, max_ops: 24, forget: false, sink_faults: false, src_tricks: false, bad_hints: false, no_heap_shapes: false, alloc_window: false, lies: false, serde_faults: false }
    }
}

pub fn uniform(except: &[Kind]) -> Vec<(Kind, u32)> {
    ALL_KINDS.iter().filter(|k| !except.contains(k)).map(|k| (*k, 10)).collect()
}

pub fn boost(mut w: Vec<(Kind, u32)>, kinds: &[Kind], weight: u32) -> Vec<(Kind, u32)> {
    for (k, x) in w.iter_mut() {
        if kinds.contains(k) {
            *x = weight;
        }
    }
    w
}

/// (shape, N, M) combinations the executor is monomorphised for.
pub const MENU: [(Shape, usize, usize); 43] = [
    (Shape::Small, 0, 0),
    (Shape::Small, 0, 2),
    (Shape::Small, 1, 1),
    (Shape::Small, 1, 3),
    (Shape::Small, 2, 2),
    (Shape::Small, 2, 1),
    (Shape::Small, 3, 3),
    (Shape::Small, 3, 5),
    (Shape::Small, 5, 3),
    (Shape::Small, 8, 8),
    (Shape::Small, 16, 16),
    (Shape::Small, 16, 4),
    (Shape::Large, 2, 2),
    (Shape::Large, 3, 5),
    (Shape::Large, 8, 8),
    (Shape::Boxed, 1, 1),
    (Shape::Boxed, 3, 3),
    (Shape::Boxed, 5, 3),
    (Shape::Boxed, 8, 8),
    (Shape::ZstKey, 0, 2),
    (Shape::ZstKey, 3, 3),
    (Shape::ZstKey, 8, 8),
    (Shape::ZstVal, 2, 2),
    (Shape::ZstVal, 3, 5),
    (Shape::ZstVal, 8, 8),
    (Shape::ZstBoth, 3, 3),
    (Shape::ZstBoth, 16, 4),
    (Shape::PlainKey, 2, 1),
    (Shape::PlainKey, 3, 3),
    (Shape::PlainKey, 8, 8),
    (Shape::PlainVal, 3, 5),
    (Shape::PlainVal, 8, 8),
    (Shape::PlainBoth, 4, 4),
    (Shape::Small, 4, 6),
    (Shape::Small, 32, 7),
    (Shape::Boxed, 16, 2),
    (Shape::Large, 1, 4),
    (Shape::ZstVal, 0, 1),
    (Shape::Aligned, 3, 2),
    (Shape::Small, 300, 3),
    (Shape::Small, 12, 9),
    (Shape::Small, 64, 11),
    (Shape::Boxed, 24, 6),
];

pub struct G<'a> {
    pub r: SplitMix,
    pub p: &'a Profile,
    pub n: usize,
    pub m: usize,
    pub u: u32,
}

impl G<'_> {
    fn t(&mut self) -> T {
        if self.r.chance(2, 3) {
            T::A
        } else {
            T::B
        }
    }
    fn cap(&self, t: T) -> usize {
        if t == T::A {
            self.n
        } else {
            self.m
        }
    }
    fn c(&mut self) -> u32 {
        self.r.below(self.u as u64) as u32
    }
    fn f(&mut self) -> Form {
        if self.r.chance(1, 2) {
            Form::Own
        } else {
            Form::Bor
        }
    }
    fn end(&mut self) -> End {
        let k = if self.r.chance(1, 10) { 250 + self.r.below(6) as u8 } else { self.r.below(self.n.max(self.m) as u64 + 2) as u8 };
        match self.r.below(if self.p.forget { 16 } else { 14 }) {
            0 | 1 => End::Exhaust,
            2 | 3 | 4 => End::Drop,
            5 => End::Fold,
            6 => End::ForEach,
            7 => End::Count,
            8 => End::Last,
            9 => End::Nth(k),
            10 => End::Find(k),
            11 => End::StepBy(k % 4),
            12 => End::Skip(k),
            13 => if self.r.chance(1, 2) { End::MinBy } else { End::AllUntil(k) },
            _ => End::Forget,
        }
    }
    fn clone_keep(&mut self, t: T) -> CloneKeep {
        match self.r.below(3) {
            0 => CloneKeep::DropClone,
            1 => CloneKeep::KeepClone,
            _ => CloneKeep::CloneFrom(self.r.below(self.cap(t) as u64 + 1) as u8),
        }
    }
    fn take(&mut self, t: T) -> u8 {
        self.r.below(self.cap(t) as u64 + 2) as u8
    }
    fn sink(&mut self) -> SinkCfg {
        if self.p.sink_faults && self.r.chance(1, 3) {
            match self.r.below(3) {
                0 => SinkCfg { fail_at: Some(1 + self.r.below(40) as u32), cap: 8192, elem_fail_at: None },
                1 => SinkCfg { fail_at: None, cap: self.r.below(48) as u32, elem_fail_at: None },
                _ => SinkCfg { fail_at: None, cap: 8192, elem_fail_at: Some(1 + self.r.below(12) as u32) },
            }
        } else {
            SinkCfg { fail_at: None, cap: 8192, elem_fail_at: None }
        }
    }
    fn src(&mut self, len: usize) -> SrcCfg {
        if self.p.src_tricks && self.r.chance(1, 2) {
            SrcCfg { hint: self.r.below(if self.p.bad_hints { 8 } else { 5 }) as u8, gap_at: if self.r.chance(1, 3) { Some(self.r.below(len as u64 + 1) as u8) } else { None } }
        } else {
            SrcCfg { hint: 0, gap_at: None }
        }
    }
    fn items(&mut self, t: T) -> Vec<u32> {
        let cap = self.cap(t);
        // lengths below, at and far above capacity; few or many distinct classes
        let len = match self.r.below(5) {
            0 => self.r.below(cap as u64 + 1) as usize,
            1 => cap,
            2 => cap + 1 + self.r.below(3) as usize,
            3 => (cap * 3).min(cap + 64) + self.r.below(5) as usize,
            _ => self.r.below(6) as usize,
        };
        let span = match self.r.below(3) {
            0 => (cap as u32).max(1),
            1 => cap as u32 + 1 + self.r.below(3) as u32,
            _ => 1 + self.r.below(3) as u32,
        };
        (0..len).map(|_| self.r.below(span as u64) as u32).collect()
    }

    pub fn op(&mut self, k: Kind) -> Op {
        let t = self.t();
        match k {
            Kind::Insert => Op::Insert { t, c: self.c() },
            Kind::InsertKv => Op::InsertKv { t, c: self.c() },
            Kind::Checked => Op::Checked { t, c: self.c() },
            Kind::Unchecked => Op::Unchecked { t, c: self.c() },
            Kind::Lookup => {
                let (c, f) = (self.c(), self.f());
                match self.r.below(4) {
                    0 => Op::Get { t, c, f },
                    1 => Op::GetKv { t, c, f },
                    2 => Op::Contains { t, c, f },
                    _ => Op::Index { t, c, f },
                }
            }
            Kind::Mutate => {
                let (c, f) = (self.c(), self.f());
                if self.r.chance(1, 2) {
                    Op::GetMut { t, c, f }
                } else {
                    Op::IndexMut { t, c, f }
                }
            }
            Kind::Remove => {
                let (c, f) = (self.c(), self.f());
                if self.r.chance(1, 2) {
                    Op::Remove { t, c, f }
                } else {
                    Op::RemoveEntry { t, c, f }
                }
            }
            Kind::Retain => Op::Retain { t, keep: self.r.next() as u32, mutate: self.r.chance(1, 2) },
            Kind::Clear => Op::Clear { t },
            Kind::Drain => Op::Drain { t, take: self.take(t), end: self.end() },
            Kind::Consume => {
                let (take, end) = (self.take(t), self.end());
                match self.r.below(3) {
                    0 => Op::IntoIter { t, take, end },
                    1 => Op::IntoKeys { t, take, end },
                    _ => Op::IntoValues { t, take, end },
                }
            }
            Kind::Iter => {
                let kind = [IterKind::Iter, IterKind::IterMut, IterKind::Keys, IterKind::Values, IterKind::ValuesMut, IterKind::RefIntoIter, IterKind::MutIntoIter][self.r.below(7) as usize];
                let take = self.take(t);
                Op::Iter { t, kind, take, clone_at: if self.r.chance(1, 2) { Some(self.r.below(take as u64 + 1) as u8) } else { None }, dbg_at: None, fin: self.r.below(7) as u8 }
            }
            Kind::Clone => Op::CloneMap { t, keep: self.clone_keep(t) },
            Kind::Eq => Op::EqMap { a: t, b: self.t() },
            Kind::FromIter => {
                let items = self.items(t);
                let src = self.src(items.len());
                Op::FromIter { t, items, src }
            }
            Kind::FromArr => Op::FromArr { t, items: self.items(t) },
            Kind::Entry => Op::Entry { t, c: self.c(), act: ENTRY_ACTS[self.r.below(if self.p.forget { 19 } else { 18 }) as usize].clone() }.fix_forget(self.p.forget),
            Kind::Disjoint => {
                let j = self.r.below(5) as usize;
                let distinct = self.r.chance(3, 4);
                let mut cs: Vec<u32> = Vec::new();
                for _ in 0..j {
                    let mut c = self.r.below(self.u as u64 + 2) as u32;
                    if distinct {
                        let mut guard = 0;
                        while cs.contains(&c) && guard < 20 {
                            c = (c + 1) % (self.u + 6);
                            guard += 1;
                        }
                    }
                    cs.push(c);
                }
                Op::Disjoint { t, cs, f: self.f() }
            }
            Kind::SInsert => {
                if self.r.chance(2, 3) {
                    Op::SInsert { t, c: self.c() }
                } else {
                    Op::SReplace { t, c: self.c() }
                }
            }
            Kind::SLookup => {
                let (c, f) = (self.c(), self.f());
                if self.r.chance(1, 2) {
                    Op::SContains { t, c, f }
                } else {
                    Op::SGet { t, c, f }
                }
            }
            Kind::SRemove => {
                let (c, f) = (self.c(), self.f());
                if self.r.chance(1, 2) {
                    Op::SRemove { t, c, f }
                } else {
                    Op::STake { t, c, f }
                }
            }
            Kind::SRetain => Op::SRetain { t, keep: self.r.next() as u32 },
            Kind::SClear => Op::SClear { t },
            Kind::SDrain => Op::SDrain { t, take: self.take(t), end: self.end() },
            Kind::SConsume => Op::SIntoIter { t, take: self.take(t), end: self.end() },
            Kind::SIter => {
                let take = self.take(t);
                Op::SIter { t, take, clone_at: if self.r.chance(1, 2) { Some(self.r.below(take as u64 + 1) as u8) } else { None }, fin: self.r.below(7) as u8 }
            }
            Kind::SClone => Op::SClone { t, keep: self.clone_keep(t) },
            Kind::SEq => Op::SEq { a: t, b: self.t() },
            Kind::SFromIter => {
                let items = self.items(t);
                let src = self.src(items.len());
                Op::SFromIter { t, items, src }
            }
            Kind::SFromArr => Op::SFromArr { t, items: self.items(t) },
            Kind::SExtend => {
                let items = self.items(t);
                let src = self.src(items.len());
                Op::SExtend { t, items, src }
            }
            Kind::SAlg => {
                let kind = [AlgKind::Union, AlgKind::Intersection, AlgKind::Difference, AlgKind::SymDiff][self.r.below(4) as usize];
                let j = self.r.below(self.n as u64 + self.m as u64 + 2) as u8;
                let how = match self.r.below(4) {
                    0 => AlgUse::Take(j),
                    1 => AlgUse::Fold,
                    2 => AlgUse::Count,
                    _ => AlgUse::DebugAt(j),
                };
                Op::SAlg { a: t, b: self.t(), kind, how }
            }
            Kind::SRel => Op::SRel { a: t, b: self.t(), kind: [RelKind::Subset, RelKind::Superset, RelKind::Disjoint][self.r.below(3) as usize] },
            Kind::SSub => Op::SSub { a: t, b: self.t() },
            Kind::Fmt => Op::Fmt { t, set: self.r.chance(1, 3), style: [Style::Debug, Style::Alt, Style::Display][self.r.below(3) as usize], sink: self.sink(), spec: if self.r.chance(1, 2) { 0 } else { self.r.below(8) as u8 } },
            Kind::FmtIter => Op::FmtIter { t, which: self.r.below(9) as u8, take: self.take(t), alt: self.r.chance(1, 3), sink: self.sink(), spec: if self.r.chance(2, 3) { 0 } else { self.r.below(8) as u8 } },
            Kind::Serde => {
                let faults = self.p.serde_faults && self.r.chance(1, 4);
                Op::Serde {
                    t,
                    set: self.r.chance(1, 3),
                    cfg: SerdeCfg {
                        bincode: self.r.chance(1, 3),
                        permute: self.r.below(8) as u8,
                        hint: self.r.below(4) as u8,
                        into_other: self.r.chance(1, 3),
                        truncate: if faults && self.r.chance(1, 3) { Some(self.r.below(40) as u16) } else { None },
                        flip_bit: if faults && self.r.chance(1, 3) { Some(self.r.below(400) as u16) } else { None },
                        ser_fail_at: if faults && self.r.chance(1, 3) { Some(self.r.below(20) as u16) } else { None },
                        de_fail_at: if faults && self.r.chance(1, 3) { Some(self.r.below(10) as u16) } else { None },
                        dup_at: if faults && self.r.chance(1, 2) { Some(self.r.below(40) as u16) } else { None },
                        in_place: self.r.chance(1, 4),
                        json: if self.r.chance(1, 3) { 1 + self.r.below(3) as u8 } else { 0 },
                    },
                }
            }
            Kind::Fill => Op::Fill { t, set: self.r.chance(1, 3) },
            Kind::Overflow => Op::Overflow { t, via: VIAS[self.r.below(VIAS.len() as u64) as usize], hint: if self.r.chance(2, 3) { 0 } else { self.r.below(8) as u8 } },
            Kind::Relocate => Op::Relocate { t, set: self.r.chance(1, 3) },
            Kind::WithCap => Op::WithCap { t, c: if self.r.chance(1, 2) { self.cap(t) as u32 } else { self.r.below(20) as u32 } },
            Kind::DropNew => Op::DropNew { t, set: self.r.chance(1, 3), dflt: self.r.chance(1, 2) },
            Kind::DisjointUnchecked => {
                // pairwise different classes: the documented precondition
                let j = self.r.below(5) as usize;
                let mut cs: Vec<u32> = Vec::new();
                for _ in 0..j {
                    let mut c = self.r.below(self.u as u64 + 2) as u32;
                    while cs.contains(&c) {
                        c = (c + 1) % (self.u + 8);
                    }
                    cs.push(c);
                }
                Op::DisjointUnchecked { t, cs, f: self.f() }
            }
            Kind::DefaultIter => Op::DefaultIter { t, which: self.r.below(8) as u8 },
            Kind::SDiffRef => {
                let j = self.r.below(self.n as u64 + self.m as u64 + 2) as u8;
                let how = match self.r.below(4) {
                    0 => AlgUse::Take(j),
                    1 => AlgUse::Fold,
                    2 => AlgUse::Count,
                    _ => AlgUse::DebugAt(j),
                };
                Op::SDiffRef { a: t, b: self.t(), how }
            }
            Kind::BigDisjoint => Op::BigDisjoint { fill: if self.r.chance(1, 2) { 256 } else { self.r.below(257) as u16 }, sel: self.r.below(8) as u8 },
            Kind::FmtIrreflexive => Op::FmtIrreflexive { n: self.r.below(7) as u8, map: self.r.chance(1, 3), style: [Style::Debug, Style::Alt, Style::Display][self.r.below(3) as usize], spec: if self.r.chance(1, 2) { 0 } else { self.r.below(8) as u8 } },
            Kind::Transfer => Op::Transfer { from: t, how: self.r.below(6) as u8 },
            Kind::SExtendRef => {
                let items = self.items(t);
                let src = self.src(items.len());
                Op::SExtendRef { t, items, src }
            }
        }
    }

    pub fn pick_kind(&mut self, enabled: &[(Kind, u32)]) -> Kind {
        let total: u64 = enabled.iter().map(|x| x.1 as u64).sum();
        let mut x = self.r.below(total.max(1));
        for (k, w) in enabled {
            if x < *w as u64 {
                return *k;
            }
            x -= *w as u64;
        }
        enabled[0].0
    }
}

impl Op {
    fn fix_forget(self, allowed: bool) -> Op {
        match self {
            Op::Entry { t, c, act: EntryAct::Forget } if !allowed => Op::Entry { t, c, act: EntryAct::Abandon },
            o => o,
        }
    }
}

pub fn lie_menu(r: &mut SplitMix) -> Lie {
    let simple = |r: &mut SplitMix| match r.below(10) {
        0 => Lie::AlwaysTrue,
        1 => Lie::AlwaysFalse,
        2 => Lie::Random(64 + r.below(128) as u8),
        3 => Lie::Flip(16 + r.below(200) as u8),
        4 => Lie::NonReflexive,
        5 => Lie::Asymmetric,
        6 => Lie::TruthThenTrue(r.below(6) as u32),
        7 => Lie::TruthThenFalse(r.below(6) as u32),
        8 => Lie::Alternate,
        _ => Lie::Truth,
    };
    if r.chance(1, 4) {
        let n = 2 + r.below(3);
        Lie::Phase((0..n).map(|_| simple(r)).collect())
    } else {
        simple(r)
    }
}

/// The base plan of run `run` of a check: configuration and history, no faults yet.
pub fn base_plan(seed: u64, prop_no: u64, run: u64, p: &Profile) -> Plan {
    let mut r = SplitMix(mix(seed, prop_no, run));
    // the large-capacity entries are expensive (every step is linear or quadratic in the fill level):
    // they are drawn for one run in 150, the rest of the menu uniformly
    let menu: Vec<&(Shape, usize, usize)> = MENU.iter().filter(|(s, n, _)| (!p.no_heap_shapes || *s != Shape::Boxed) && *n < 100).collect();
    let big: Vec<&(Shape, usize, usize)> = MENU.iter().filter(|(_, n, _)| *n >= 100).collect();
    let (shape, n, m) = if !big.is_empty() && r.chance(1, 150) { *big[r.below(big.len() as u64) as usize] } else { *menu[r.below(menu.len() as u64) as usize] };
    let u = 1 + r.below(n.max(m) as u64 + 3) as u32;
    // swarm: each run enables a random subset of the profile's operation kinds
    let mut enabled: Vec<(Kind, u32)> = p.weights.iter().filter(|_| r.chance(3, 5)).cloned().collect();
    if enabled.is_empty() {
        enabled = p.weights.clone();
    }
    // fill bias: some runs insert much more than they remove
    if r.chance(1, 3) {
        for (k, w) in enabled.iter_mut() {
            if matches!(k, Kind::Insert | Kind::SInsert | Kind::Fill) {
                *w *= 4;
            }
        }
    }
    let len = p.min_ops + r.below((p.max_ops - p.min_ops + 1) as u64) as usize;
    let (lie, lie_seed, lie_borrow) = if p.lies { (lie_menu(&mut r), r.next(), r.chance(1, 4)) } else { (Lie::Truth, 0, false) };
    let mut g = G { r, p, n, m, u };
    let mut ops = Vec::with_capacity(len);
    for _ in 0..len {
        let k = g.pick_kind(&enabled);
        ops.push(g.op(k));
    }
    Plan { cfg: Cfg { shape, n, m, universe: u, lie, lie_seed, lie_borrow, alloc_window: p.alloc_window }, ops, faults: Vec::new() }
}
