//! The caller-supplied `fmt::Write` sink (C19, C06): a fixed buffer that never
//! allocates and that the simulator can make fail at a chosen write call or
//! when a deliberately tiny capacity is exhausted.

use crate::env::{self, Cb};
use core::fmt;

pub const SINK_BYTES: usize = 8192;

pub struct Sink {
    pub buf: [u8; SINK_BYTES],
    pub len: usize,
    pub cap: usize,
    pub fail_at: Option<u32>,
    pub writes: u32,
    pub failed: bool,
    /// an element's own formatter returned Err during the rendering (set by the harness afterwards)
    pub elem_failed: bool,
}

impl Sink {
    pub fn new(cap: u32, fail_at: Option<u32>) -> Self {
        Sink { buf: [0; SINK_BYTES], len: 0, cap: (cap as usize).min(SINK_BYTES), fail_at, writes: 0, failed: false, elem_failed: false }
    }
    pub fn text(&self) -> &str {
        core::str::from_utf8(&self.buf[..self.len]).unwrap_or("<non-utf8>")
    }
}

impl fmt::Write for Sink {
    fn write_str(&mut self, s: &str) -> fmt::Result {
        // the sink is user code too: the simulator sees (and may fault) every write call
        env::touch(Cb::Sink, None, None);
        self.writes += 1;
        if self.fail_at == Some(self.writes) {
            self.failed = true;
            return Err(fmt::Error);
        }
        let b = s.as_bytes();
        if self.len + b.len() > self.cap {
            self.failed = true;
            return Err(fmt::Error);
        }
        self.buf[self.len..self.len + b.len()].copy_from_slice(b);
        self.len += b.len();
        Ok(())
    }
}

/// Mirror types: render exactly what the payload types render, from identities alone.
pub struct FK(pub u64);
pub struct FV(pub u64);

impl fmt::Debug for FK {
    fn fmt(&self, f: &mut fmt::Formatter<'_>) -> fmt::Result {
        crate::payload::dbg_id(f, b'k', self.0)
    }
}
impl fmt::Debug for FV {
    fn fmt(&self, f: &mut fmt::Formatter<'_>) -> fmt::Result {
        crate::payload::dbg_id(f, b'v', self.0)
    }
}
impl fmt::Display for FK {
    fn fmt(&self, f: &mut fmt::Formatter<'_>) -> fmt::Result {
        crate::payload::pad_id(f, b'K', self.0)
    }
}
impl fmt::Display for FV {
    fn fmt(&self, f: &mut fmt::Formatter<'_>) -> fmt::Result {
        crate::payload::pad_id(f, b'V', self.0)
    }
}

/// Extracts the object tokens (`k12`, `v7`, `K3`, `V9`) of a rendering, in order of appearance.
pub fn tokens(text: &str) -> Vec<(char, u64)> {
    let b = text.as_bytes();
    let mut out = Vec::new();
    let mut i = 0;
    while i < b.len() {
        let c = b[i] as char;
        if matches!(c, 'k' | 'v' | 'K' | 'V') && i + 1 < b.len() && b[i + 1].is_ascii_digit() {
            let mut j = i + 1;
            let mut n = 0u64;
            while j < b.len() && b[j].is_ascii_digit() {
                n = n * 10 + (b[j] - b'0') as u64;
                j += 1;
            }
            out.push((c, n));
            i = j;
        } else {
            i += 1;
        }
    }
    out
}
