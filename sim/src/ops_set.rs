//! Operations on one `Set`, and the read-only binary operations on two maps / two sets.

use crate::env::{self, Cb};
use crate::exec::OpOut;
use crate::ops_iter::consume;
use crate::ops_map::{finish_iter, forget_remaining, range_of, win, Session};
use crate::payload::{Class, SimK, SimV};
use crate::plan::{AlgKind, AlgUse, CloneKeep, End, Form, Op, RelKind, T};
use crate::sink::Sink;
use crate::world::{has_class, snap_set, violate, Cx, Snap};
use core::borrow::Borrow;
use micromap::{Map, Set};

pub fn set_op<K: SimK, V: SimV, const C: usize>(s: &mut Set<K, C>, cx: &mut Cx<K, V>, op: &Op, t: T, pre: &Snap, out: &mut OpOut) {
    let aw = cx.cfg.alloc_window;
    let (base, size) = range_of(s);
    let full = pre.len() == C;
    match op {
        Op::SInsert { c, .. } | Op::SReplace { c, .. } => {
            let present = has_class(pre, *c, K::ANON);
            let k = cx.mk_k(*c);
            out.adds = Some((true, t, *c));
            if full && !present {
                cx.probe("set_insert_on_full_absent");
            }
            if full && present {
                cx.probe("set_replace_on_full");
            }
            if matches!(op, Op::SInsert { .. }) {
                let r = win!(aw, s.insert(k));
                cx.dg(r as u64);
            } else if let Some(old) = win!(aw, s.replace(k)) {
                cx.ret_k("Set::replace", old);
            }
        }
        Op::SContains { c, f, .. } | Op::SGet { c, f, .. } | Op::SRemove { c, f, .. } | Op::STake { c, f, .. } => match f {
            Form::Own => {
                let probe = cx.mk_k(*c);
                set_lookup::<K, V, C, K>(s, cx, op, &probe);
                cx.pocket_k.push(probe);
            }
            Form::Bor => set_lookup::<K, V, C, Class>(s, cx, op, &Class(*c)),
        },
        Op::SRetain { keep, .. } => {
            let mut i = 0u32;
            let keep = *keep;
            win!(aw, s.retain(|k| {
                let pk = k.peek();
                env::touch(Cb::Pred, Some(&pk), None);
                {
                    let _p = crate::alloc::Pause::new();
                    cx.inside("Set::retain predicate", k as *const K as usize, std::mem::size_of::<K>(), std::mem::align_of::<K>(), base, size);
                }
                let r = (keep >> (i % 32)) & 1 == 1;
                i += 1;
                r
            }));
            cx.dg(i as u64);
        }
        Op::SClear { .. } => {
            win!(aw, s.clear());
        }
        Op::SDrain { take, end, .. } => {
            let mut sess = Session::new("Set::drain", pre, (true, false));
            let order = twin_order_set(s, pre, true);
            let mut drop_panic = None;
            {
                let d = win!(aw, s.drain());
                let rest = consume(d, cx, &mut sess, *take, *end, |x: &K| (x.peek().id, 0), |cx, x| cx.ret_k("Set::drain", x), (K::ANON, true), order.as_deref().map(|o| (o, &(|x: &K| (x.peek().class, 0u64)) as &dyn Fn(&K) -> (u32, u64))));
                if let Some(d) = rest {
                    if *end == End::Forget {
                        forget_remaining(cx, pre, &sess, false);
                        std::mem::forget(d);
                    } else if let Err(p) = std::panic::catch_unwind(std::panic::AssertUnwindSafe(move || win!(aw, drop(d)))) {
                        drop_panic = Some(p);
                    }
                }
            }
            if let Some(p) = drop_panic {
                // (see Op::Drain) the set must be empty although a destructor panicked inside the drain's drop
                crate::alloc::arm(false);
                cx.probe("drain_drop_panicked");
                let left = crate::world::observing(|| std::panic::catch_unwind(std::panic::AssertUnwindSafe(|| snap_set(s).len())).unwrap_or(usize::MAX));
                if s.len() != 0 || left != 0 || !s.is_empty() {
                    violate("drain-not-empty-after-panic", format!("Set::drain() (taken {} of {}) was dropped and an element destructor panicked inside that drop: afterwards len()={} and iteration yields {} elements", sess.taken, pre.len(), s.len(), left));
                }
                std::panic::resume_unwind(p);
            }
            let left = snap_set(s);
            if s.len() != 0 || !left.is_empty() || !s.is_empty() {
                violate("drain-not-empty", format!("after Set::drain() (taken {} of {}, end {:?}) len()={} and iteration yields {} elements", sess.taken, pre.len(), end, s.len(), left.len()));
            }
            if *end != End::Forget && !cx.lying {
                let refill = |s: &mut Set<K, C>| -> bool {
                    std::panic::catch_unwind(std::panic::AssertUnwindSafe(|| {
                        let want = if K::ANON { C.min(1) } else { C };
                        let mut good = true;
                        for i in 0..want {
                            good &= s.insert(K::make(50_000 + i as u32, 0));
                        }
                        good &= s.len() == want && s.iter().count() == want;
                        for i in 0..want {
                            good &= s.contains::<K>(&K::make(50_000 + i as u32, 0));
                        }
                        s.clear();
                        good && s.is_empty()
                    }))
                    .unwrap_or(false)
                };
                let ok = crate::world::observing(|| refill(s) || !refill(&mut Set::new()));
                if !ok {
                    violate("drain-not-reusable", format!("after Set::drain() (taken {} of {}, end {:?}) the set cannot be refilled to its capacity {C} and queried, although a fresh set can", sess.taken, pre.len(), end));
                }
            }
        }
        Op::SIntoIter { take, end, .. } => {
            let mut sess = Session::new("Set::into_iter", pre, (true, false));
            let order = twin_order_set(s, pre, false);
            let owned = std::mem::replace(s, Set::new());
            let it = win!(aw, owned.into_iter());
            let rest = consume(it, cx, &mut sess, *take, *end, |x: &K| (x.peek().id, 0), |cx, x| cx.ret_k("Set::into_iter", x), (K::ANON, true), order.as_deref().map(|o| (o, &(|x: &K| (x.peek().class, 0u64)) as &dyn Fn(&K) -> (u32, u64))));
            if let Some(it) = rest {
                if *end == End::Forget {
                    forget_remaining(cx, pre, &sess, false);
                    std::mem::forget(it);
                } else {
                    win!(aw, drop(it));
                }
            }
        }
        Op::SIter { take, clone_at, fin, .. } => {
            let (fin, k) = (*fin, *take as usize);
            let mut it = win!(aw, s.iter());
            let mut j = 0;
            while j < *take as usize {
                if Some(j as u8) == *clone_at {
                    let c2 = it.clone();
                    cx.dg(win!(aw, c2.count()) as u64);
                }
                match win!(aw, it.next()) {
                    Some(k) => {
                        cx.see_k("Set::iter", k, base, size);
                    }
                    None => break,
                }
                j += 1;
            }
            finish_iter!(it, fin, k, cx, aw, |x| {
                cx.see_k("Set::iter", x, base, size);
            });
        }
        Op::SClone { keep, .. } => {
            if !pre.is_empty() {
                cx.probe("set_clone_nonempty");
            }
            let c2 = win!(aw, s.clone());
            crate::world::observing(|| crate::world::wf_set("clone of set", &c2, cx.lying));
            match keep {
                CloneKeep::DropClone => win!(aw, drop(c2)),
                CloneKeep::KeepClone => {
                    let old = std::mem::replace(s, c2);
                    win!(aw, drop(old));
                }
                CloneKeep::CloneFrom(prefill) => {
                    cx.probe("set_clone_from_into_nonempty");
                    win!(aw, drop(c2));
                    let mut dst: Set<K, C> = Set::new();
                    for i in 0..(*prefill as usize).min(C) {
                        let c = if i < pre.len() && i % 3 != 2 { pre[pre.len() - 1 - i].kclass } else { 100 + i as u32 };
                        let k = cx.mk_k(c);
                        win!(aw, dst.insert(k));
                    }
                    let src = std::mem::replace(s, dst);
                    let r = std::panic::catch_unwind(std::panic::AssertUnwindSafe(|| win!(aw, s.clone_from(&src))));
                    crate::world::observing(|| crate::world::wf_set("source of clone_from", &src, cx.lying));
                    match r {
                        Ok(()) => win!(aw, drop(src)),
                        Err(p) => {
                            crate::world::observing(|| drop(src));
                            std::panic::resume_unwind(p);
                        }
                    }
                }
            }
        }
        Op::SExtendRef { items, src, .. } => crate::ops_bulk::set_extend_ref::<K, V, C>(cx, items, src, pre),
        Op::Fill { .. } => {
            let mut c = 0u32;
            let mut guard = 0;
            while s.len() < C && guard < 4 * C + 8 {
                guard += 1;
                if K::ANON {
                    if !s.is_empty() {
                        break;
                    }
                } else {
                    while snap_set(s).iter().any(|e| e.kclass == c) {
                        c += 1;
                    }
                }
                let k = cx.mk_k(c);
                win!(aw, s.insert(k));
                c += 1;
            }
            if s.len() == C {
                cx.probe("set_filled_to_full");
            }
        }
        Op::DropNew { dflt, .. } => {
            let fresh: Set<K, C> = if *dflt { win!(aw, Set::default()) } else { win!(aw, Set::new()) };
            let old = std::mem::replace(s, fresh);
            win!(aw, drop(old));
        }
        _ => unreachable!("not a single-set operation: {op:?}"),
    }
}

/// Set counterpart of `twin_order_map`.
fn twin_order_set<K: SimK, const C: usize>(s: &Set<K, C>, pre: &Snap, drain: bool) -> Option<Vec<(u32, u64)>> {
    crate::world::observing(|| {
        std::panic::catch_unwind(std::panic::AssertUnwindSafe(|| {
            let mut twin = s.clone();
            let ts = snap_set(&twin);
            if ts.len() != pre.len() || ts.iter().zip(pre.iter()).any(|(a, b)| a.kclass != b.kclass) {
                return None;
            }
            let v: Vec<(u32, u64)> = if drain {
                let v = twin.drain().map(|k| (k.peek().class, 0)).collect();
                drop(twin);
                v
            } else {
                twin.into_iter().map(|k| (k.peek().class, 0)).collect()
            };
            Some(v)
        }))
        .ok()
        .flatten()
    })
}

fn set_lookup<K: SimK + Borrow<Q>, V: SimV, const C: usize, Q: PartialEq + ?Sized>(s: &mut Set<K, C>, cx: &mut Cx<K, V>, op: &Op, q: &Q) {
    let aw = cx.cfg.alloc_window;
    let (base, size) = range_of(s);
    match op {
        Op::SContains { .. } => {
            let r = win!(aw, s.contains::<Q>(q));
            cx.dg(r as u64);
        }
        Op::SGet { .. } => {
            if let Some(k) = win!(aw, s.get::<Q>(q)) {
                cx.see_k("Set::get", k, base, size);
            } else {
                cx.dg(1);
            }
        }
        Op::SRemove { .. } => {
            let r = win!(aw, s.remove::<Q>(q));
            cx.dg(r as u64);
        }
        Op::STake { .. } => {
            if let Some(k) = win!(aw, s.take::<Q>(q)) {
                cx.ret_k("Set::take", k);
            }
        }
        _ => unreachable!(),
    }
}

pub fn map_eq<K: SimK, V: SimV, const C1: usize, const C2: usize>(a: &Map<K, V, C1>, b: &Map<K, V, C2>, cx: &mut Cx<K, V>) {
    let aw = cx.cfg.alloc_window;
    let r = win!(aw, a == b);
    cx.dg(r as u64);
    let r2 = win!(aw, a != b);
    cx.dg(r2 as u64);
}

pub fn set_eq<K: SimK, V: SimV, const C1: usize, const C2: usize>(a: &Set<K, C1>, b: &Set<K, C2>, cx: &mut Cx<K, V>) {
    let aw = cx.cfg.alloc_window;
    let r = win!(aw, a == b);
    cx.dg(r as u64);
}

pub fn set_rel<K: SimK, V: SimV, const C1: usize, const C2: usize>(a: &Set<K, C1>, b: &Set<K, C2>, cx: &mut Cx<K, V>, kind: RelKind) {
    let aw = cx.cfg.alloc_window;
    let r = match kind {
        RelKind::Subset => win!(aw, a.is_subset(b)),
        RelKind::Superset => win!(aw, a.is_superset(b)),
        RelKind::Disjoint => win!(aw, a.is_disjoint(b)),
    };
    cx.dg(r as u64);
}

/// `&a - &b`: builds a new set by cloning; the result is examined and dropped.
pub fn set_sub<K: SimK, V: SimV, const C1: usize, const C2: usize>(a: &Set<K, C1>, b: &Set<K, C2>, cx: &mut Cx<K, V>) {
    let aw = cx.cfg.alloc_window;
    let r: Set<K, C1> = win!(aw, a - b);
    crate::world::observing(|| crate::world::wf_set("result of '-'", &r, cx.lying));
    cx.dg(r.len() as u64);
    if !r.is_empty() {
        cx.probe("sub_nonempty_result");
    }
    win!(aw, drop(r));
}

/// `difference_ref` on sets of references: the left operand holds references to the elements of
/// `a`, the right one references to the elements of `b`; what it yields are the very references
/// stored in the left operand, i.e. pointers to elements of `a`.
pub fn set_diff_ref<K: SimK, V: SimV, const C1: usize, const C2: usize>(a: &Set<K, C1>, b: &Set<K, C2>, cx: &mut Cx<K, V>, how: AlgUse) {
    let aw = cx.cfg.alloc_window;
    cx.probe("difference_ref");
    let mut ra: Set<&K, C1> = win!(aw, Set::new());
    for k in a.iter() {
        win!(aw, ra.insert(k));
    }
    let mut rb: Set<&K, C2> = win!(aw, Set::new());
    for k in b.iter() {
        win!(aw, rb.insert(k));
    }
    let r = range_of(a);
    drive(win!(aw, ra.difference_ref(&rb)), cx, how, [r, r], "difference_ref");
}

fn drive<'x, K: SimK + 'x, V: SimV, I>(mut it: I, cx: &mut Cx<K, V>, how: AlgUse, ranges: [(usize, usize); 2], what: &'static str)
where
    I: Iterator<Item = &'x K> + Clone + core::fmt::Debug,
{
    let aw = cx.cfg.alloc_window;
    let see = |cx: &mut Cx<K, V>, k: &K| {
        // the reference must point into one of the two operands
        let a = k as *const K as usize;
        let (b0, s0) = ranges[0];
        // end inclusive: a zero-sized element of an otherwise empty-bodied set sits at the very end of it
        let (base, size) = if a >= b0 && a <= b0 + s0 { ranges[0] } else { ranges[1] };
        cx.see_k(what, k, base, size);
    };
    match how {
        AlgUse::Take(j) => {
            for _ in 0..j {
                let h = it.size_hint();
                cx.dg(h.0 as u64);
                match win!(aw, it.next()) {
                    Some(k) => see(cx, k),
                    None => break,
                }
            }
        }
        AlgUse::Fold => {
            let mut outside = 0usize;
            let n = win!(aw, it.fold(0usize, |acc, k| {
                let p = k.peek();
                env::touch(Cb::Closure, Some(&p), None);
                let a = k as *const K as usize;
                let sz = std::mem::size_of::<K>();
                if sz > 0 && !ranges.iter().any(|(b, s)| a >= *b && a + sz <= *b + *s) {
                    outside += 1;
                }
                acc + 1
            }));
            cx.dg(n as u64);
            if outside > 0 {
                violate("outside-container", format!("{what}: fold handed {outside} reference(s) that point into neither operand"));
            }
        }
        AlgUse::Count => {
            let n = win!(aw, it.count());
            cx.dg(n as u64);
        }
        AlgUse::DebugAt(j) => {
            for _ in 0..j {
                match win!(aw, it.next()) {
                    Some(k) => see(cx, k),
                    None => break,
                }
            }
            let c2 = it.clone();
            let mut sink = Sink::new(4096, None);
            let r = win!(aw, core::fmt::write(&mut sink, format_args!("{:?}", it)));
            cx.dg(r.is_ok() as u64);
            if !K::ANON && !cx.lying {
                // Debug lists exactly what the adaptor will still yield (as a clone of it shows)
                let rest: Vec<(u64, u64)> = crate::world::observing(|| it.clone().map(|k| (k.peek().id, 0)).collect());
                let res: std::thread::Result<core::fmt::Result> = Ok(r);
                crate::ops_fmt::check_iter_text(cx, what, res, &sink, &rest, 1, crate::plan::Style::Debug, 0);
            }
            // the adaptor was not consumed by formatting: the clone taken before and the original agree
            let (n1, n2) = (win!(aw, c2.count()), win!(aw, it.count()));
            if n1 != n2 {
                violate("changed-by-formatting", format!("{what}: Debug consumed the adaptor ({n2} items left instead of {n1})"));
            }
        }
    }
}

pub fn set_alg<K: SimK, V: SimV, const C1: usize, const C2: usize>(a: &Set<K, C1>, b: &Set<K, C2>, cx: &mut Cx<K, V>, kind: AlgKind, how: AlgUse) {
    let ranges = [range_of(a), range_of(b)];
    let aw = cx.cfg.alloc_window;
    match kind {
        AlgKind::Union => drive(win!(aw, a.union(b)), cx, how, ranges, "union"),
        AlgKind::Intersection => drive(win!(aw, a.intersection(b)), cx, how, [ranges[0], ranges[0]], "intersection"),
        AlgKind::Difference => drive(win!(aw, a.difference(b)), cx, how, [ranges[0], ranges[0]], "difference"),
        AlgKind::SymDiff => drive(win!(aw, a.symmetric_difference(b)), cx, how, ranges, "symmetric_difference"),
    }
}

#[allow(dead_code)]
pub fn unused(_: Form, _: Class) {}
