//! Runs a plan on the executor instance monomorphised for its (shape, N, M).

use crate::exec::{RunOut, World};
use crate::payload::{PKey, PVal, SimKey, SimVal, ZKey, ZVal, A64};
use crate::plan::{Plan, Shape};

type SK = SimKey<()>;
type SV = SimVal<()>;
type LK = SimKey<[u64; 12]>;
type LV = SimVal<[u64; 12]>;
type BK = SimKey<Box<u64>>;
type BV = SimVal<Box<u64>>;
type AK = SimKey<A64>;
type AV = SimVal<A64>;

pub fn supported(p: &Plan) -> bool {
    crate::gen::MENU.iter().any(|(s, n, m)| *s == p.cfg.shape && *n == p.cfg.n && *m == p.cfg.m)
}

pub fn run_plan(p: &Plan) -> RunOut {
    macro_rules! go {
        ($k:ty, $v:ty, $n:literal, $m:literal) => {
            World::<$k, $v, $n, $m>::run(p)
        };
    }
    match (p.cfg.shape, p.cfg.n, p.cfg.m) {
        (Shape::Small, 0, 0) => go!(SK, SV, 0, 0),
        (Shape::Small, 0, 2) => go!(SK, SV, 0, 2),
        (Shape::Small, 1, 1) => go!(SK, SV, 1, 1),
        (Shape::Small, 1, 3) => go!(SK, SV, 1, 3),
        (Shape::Small, 2, 2) => go!(SK, SV, 2, 2),
        (Shape::Small, 2, 1) => go!(SK, SV, 2, 1),
        (Shape::Small, 3, 3) => go!(SK, SV, 3, 3),
        (Shape::Small, 3, 5) => go!(SK, SV, 3, 5),
        (Shape::Small, 5, 3) => go!(SK, SV, 5, 3),
        (Shape::Small, 8, 8) => go!(SK, SV, 8, 8),
        (Shape::Small, 16, 16) => go!(SK, SV, 16, 16),
        (Shape::Small, 16, 4) => go!(SK, SV, 16, 4),
        (Shape::Large, 2, 2) => go!(LK, LV, 2, 2),
        (Shape::Large, 3, 5) => go!(LK, LV, 3, 5),
        (Shape::Large, 8, 8) => go!(LK, LV, 8, 8),
        (Shape::Boxed, 1, 1) => go!(BK, BV, 1, 1),
        (Shape::Boxed, 3, 3) => go!(BK, BV, 3, 3),
        (Shape::Boxed, 5, 3) => go!(BK, BV, 5, 3),
        (Shape::Boxed, 8, 8) => go!(BK, BV, 8, 8),
        (Shape::ZstKey, 0, 2) => go!(ZKey, SV, 0, 2),
        (Shape::ZstKey, 3, 3) => go!(ZKey, SV, 3, 3),
        (Shape::ZstKey, 8, 8) => go!(ZKey, SV, 8, 8),
        (Shape::ZstVal, 2, 2) => go!(SK, ZVal, 2, 2),
        (Shape::ZstVal, 3, 5) => go!(SK, ZVal, 3, 5),
        (Shape::ZstVal, 8, 8) => go!(SK, ZVal, 8, 8),
        (Shape::ZstBoth, 3, 3) => go!(ZKey, ZVal, 3, 3),
        (Shape::ZstBoth, 16, 4) => go!(ZKey, ZVal, 16, 4),
        (Shape::PlainKey, 2, 1) => go!(PKey, SV, 2, 1),
        (Shape::PlainKey, 3, 3) => go!(PKey, SV, 3, 3),
        (Shape::PlainKey, 8, 8) => go!(PKey, SV, 8, 8),
        (Shape::PlainVal, 3, 5) => go!(SK, PVal, 3, 5),
        (Shape::PlainVal, 8, 8) => go!(SK, PVal, 8, 8),
        (Shape::PlainBoth, 4, 4) => go!(PKey, PVal, 4, 4),
        (Shape::Small, 4, 6) => go!(SK, SV, 4, 6),
        (Shape::Small, 32, 7) => go!(SK, SV, 32, 7),
        (Shape::Boxed, 16, 2) => go!(BK, BV, 16, 2),
        (Shape::Large, 1, 4) => go!(LK, LV, 1, 4),
        (Shape::ZstVal, 0, 1) => go!(SK, ZVal, 0, 1),
        (Shape::Aligned, 3, 2) => go!(AK, AV, 3, 2),
        (Shape::Small, 300, 3) => go!(SK, SV, 300, 3),
        (Shape::Small, 12, 9) => go!(SK, SV, 12, 9),
        (Shape::Small, 64, 11) => go!(SK, SV, 64, 11),
        (Shape::Boxed, 24, 6) => go!(BK, BV, 24, 6),
        (s, n, m) => panic!("no executor instance for shape {s:?} with capacities ({n}, {m})"),
    }
}
