//! Executes a plan against the real containers, one operation at a time, with
//! the standing checks (canaries, identity snapshots, well-formedness, place
//! tracking, allocator log) after every step.

use crate::alloc;
use crate::env::{self, Injected, Mode, Viol, Watchdog, NCB};
use crate::payload::{SimK, SimV};
use crate::plan::{Op, Plan, T};
use crate::world::{snap_map, snap_set, violate, wf_map, wf_set, Cx, Slot, Snap};
use micromap::{Map, Set};
use std::collections::BTreeMap;
use std::panic::{catch_unwind, AssertUnwindSafe};

pub struct World<K: SimK, V: SimV, const N: usize, const M: usize> {
    pub ma: Slot<Map<K, V, N>>,
    pub mb: Slot<Map<K, V, M>>,
    pub sa: Slot<Set<K, N>>,
    pub sb: Slot<Set<K, M>>,
    pub cx: Cx<K, V>,
    /// observing a container panicked: the run stops here
    pub broken: bool,
}

/// Identity snapshots of the four containers.
#[derive(Clone, Default)]
pub struct Pre {
    pub ma: Snap,
    pub mb: Snap,
    pub sa: Snap,
    pub sb: Snap,
}

impl Pre {
    pub fn map(&self, t: T) -> &Snap {
        match t {
            T::A => &self.ma,
            T::B => &self.mb,
        }
    }
    pub fn set(&self, t: T) -> &Snap {
        match t {
            T::A => &self.sa,
            T::B => &self.sb,
        }
    }
}

/// How an operation ended.
#[derive(Clone, Debug, PartialEq, Eq)]
pub enum Ended {
    Returned,
    /// the simulator's injected panic came out
    Injected,
    /// a panic raised by the code under test (message kept for the report only)
    Raised(String),
    Watchdog,
}

/// What an operation tells the per-operation rules.
#[derive(Default)]
pub struct OpOut {
    /// the operation tried to add a key of this class to map/set `t` through a safe entry point
    pub adds: Option<(bool, T, u32)>,
    /// it was `checked_insert`, and this is what it returned (None / Some)
    pub checked_ret: Option<bool>,
    /// ids of the value object that must be stored after a successful replace on a full container
    pub new_val: u64,
}

#[derive(Default)]
pub struct RunOut {
    pub viols: Vec<Viol>,
    pub trace: u64,
    pub events: u64,
    pub cb_per_op: Vec<u32>,
    pub cb_kind_per_op: Vec<[u32; NCB]>,
    pub cb_total: [u64; NCB],
    /// (fault index, callback kind, seq, op kind name, len before)
    pub fired: Vec<(usize, u8, String, usize)>,
    pub faults_armed: usize,
    pub probes: BTreeMap<&'static str, u64>,
    pub states: Vec<u64>,
    pub ended: Vec<u8>,
    pub objects: u64,
    pub eq_total: u64,
    pub lie_changed: u64,
    pub container_panics: u64,
}

pub fn op_name(op: &Op) -> String {
    let s = format!("{op:?}");
    s.split(|c: char| !c.is_alphanumeric()).next().unwrap_or("").to_string()
}

impl<K: SimK, V: SimV, const N: usize, const M: usize> World<K, V, N, M> {
    pub fn new(plan: &Plan) -> Self {
        World {
            ma: Slot::new(Map::new()),
            mb: Slot::new(Map::new()),
            sa: Slot::new(Set::new()),
            sb: Slot::new(Set::new()),
            cx: Cx::new(plan.cfg.clone()),
            broken: false,
        }
    }

    pub fn observe(&self) -> Pre {
        Pre { ma: snap_map(&self.ma.g.val), mb: snap_map(&self.mb.g.val), sa: snap_set(&self.sa.g.val), sb: snap_set(&self.sb.g.val) }
    }

    pub fn run(plan: &Plan) -> RunOut {
        env::reset(plan.faults.clone(), plan.cfg.lie.clone(), plan.cfg.lie_seed, plan.cfg.lie_borrow);
        let mut out = RunOut { faults_armed: plan.faults.len(), ..RunOut::default() };
        {
            let mut w = Self::new(plan);
            for (i, op) in plan.ops.iter().enumerate() {
                let (ended, lenb) = w.step(i, op);
                let code = match &ended {
                    Ended::Returned => 0,
                    Ended::Injected => 1,
                    Ended::Raised(_) => {
                        out.container_panics += 1;
                        2
                    }
                    Ended::Watchdog => 3,
                };
                out.ended.push(code);
                // fault bookkeeping for the evidence
                let newly: Vec<(usize, u8)> = env::with(|e| e.fired_log.iter().skip(out.fired.len()).map(|f| (f.0, f.1 as u8)).collect());
                for (fi, k) in newly {
                    out.fired.push((fi, k, op_name(op), lenb));
                }
                if ended == Ended::Watchdog || w.broken {
                    break;
                }
            }
            // final step: everything is dropped; nothing may stay alive except what was forgotten
            env::with(|e| {
                e.cur_op = plan.ops.len() as i32;
                e.mode = Mode::Observe;
            });
            let World { ma, mb, sa, sb, mut cx, broken } = w;
            let r = catch_unwind(AssertUnwindSafe(|| {
                drop(ma);
                drop(mb);
                drop(sa);
                drop(sb);
            }));
            if r.is_err() {
                violate("panic-in-final-drop", "dropping the containers at the end of the run panicked".into());
            }
            cx.empty_pockets();
            if !broken {
                final_ledger(&cx);
            }
            out.probes = std::mem::take(&mut cx.probes);
            out.states = std::mem::take(&mut cx.states);
        }
        env::with(|e| {
            out.viols = std::mem::take(&mut e.viols);
            out.trace = e.trace;
            out.events = e.seq;
            out.cb_per_op = std::mem::take(&mut e.cb_per_op);
            out.cb_kind_per_op = std::mem::take(&mut e.cb_kind_per_op);
            out.cb_total = e.cb_total;
            out.objects = e.objs.len() as u64 + e.anon_made[0] + e.anon_made[1];
            out.eq_total = e.eq_total;
            out.lie_changed = e.lie_changed;
        });
        out
    }

    fn operands(op: &Op) -> (bool, bool, bool, bool) {
        // (map A, map B, set A, set B) touched by the operation
        if matches!(op, Op::Transfer { .. }) {
            return (true, true, true, true);
        }
        let s = format!("{op:?}");
        let a = s.contains("t: A") || s.contains("a: A") || s.contains("b: A");
        let b = s.contains("t: B") || s.contains("a: B") || s.contains("b: B");
        let is_set = matches!(
            op,
            Op::SInsert { .. }
                | Op::SReplace { .. }
                | Op::SContains { .. }
                | Op::SGet { .. }
                | Op::SRemove { .. }
                | Op::STake { .. }
                | Op::SRetain { .. }
                | Op::SClear { .. }
                | Op::SDrain { .. }
                | Op::SIntoIter { .. }
                | Op::SIter { .. }
                | Op::SClone { .. }
                | Op::SEq { .. }
                | Op::SFromIter { .. }
                | Op::SFromArr { .. }
                | Op::SExtend { .. }
                | Op::SAlg { .. }
                | Op::SRel { .. }
                | Op::SSub { .. }
                | Op::SDiffRef { .. }
                | Op::SExtendRef { .. }
        ) || matches!(op, Op::Fmt { set: true, .. } | Op::Serde { set: true, .. } | Op::Fill { set: true, .. } | Op::Relocate { set: true, .. } | Op::DropNew { set: true, .. })
            || matches!(op, Op::Overflow { via, .. } if matches!(via, crate::plan::Via::SetInsert | crate::plan::Via::SetReplace | crate::plan::Via::SetCollect | crate::plan::Via::SetFromArr | crate::plan::Via::SetExtend))
            || matches!(op, Op::FmtIter { which, .. } if *which >= 4);
        if is_set {
            (false, false, a, b)
        } else {
            (a, b, false, false)
        }
    }

    fn step(&mut self, i: usize, op: &Op) -> (Ended, usize) {
        let pre = match catch_unwind(AssertUnwindSafe(|| self.observe())) {
            Ok(p) => p,
            Err(_) => {
                violate("unusable-after", "iterating a container panicked".into());
                self.broken = true;
                return (Ended::Returned, 0);
            }
        };
        let touched = Self::operands(op);
        let lenb = if touched.0 {
            pre.ma.len()
        } else if touched.1 {
            pre.mb.len()
        } else if touched.2 {
            pre.sa.len()
        } else {
            pre.sb.len()
        };
        self.cx.digest = 0;
        self.cx.note.clear();
        env::with(|e| e.begin_op(i));
        let r = catch_unwind(AssertUnwindSafe(|| self.do_op(op, &pre)));
        alloc::arm(false);
        let dg = self.cx.digest;
        env::with(|e| {
            e.th(dg);
            e.end_op()
        });
        let (hits, frees, last) = alloc::take_hits();
        let (ended, out) = match r {
            Ok(o) => (Ended::Returned, o),
            Err(p) => {
                let e = if p.is::<Injected>() {
                    Ended::Injected
                } else if p.is::<Watchdog>() {
                    Ended::Watchdog
                } else if let Some(s) = p.downcast_ref::<&str>() {
                    Ended::Raised((*s).to_string())
                } else if let Some(s) = p.downcast_ref::<String>() {
                    Ended::Raised(s.clone())
                } else {
                    Ended::Raised("<non-string panic payload>".into())
                };
                (e, OpOut::default())
            }
        };
        env::with(|e| e.th(match &ended {
            Ended::Returned => 0,
            Ended::Injected => 1,
            Ended::Raised(_) => 2,
            Ended::Watchdog => 3,
        }));
        if self.cx.cfg.alloc_window && ended == Ended::Returned && hits + frees > 0 {
            violate("allocated", format!("{}: {hits} allocating and {frees} freeing allocator calls inside the operation (last request {last} bytes)", op_name(op)));
        }
        // ---- standing checks (observation runs the container's own code: if that panics, the
        // container is unusable, which is a verdict, not a harness failure)
        if !(self.ma.canaries_ok() && self.mb.canaries_ok() && self.sa.canaries_ok() && self.sb.canaries_ok()) {
            violate("canary", format!("{}: a guard word next to a container changed", op_name(op)));
        }
        let lying = self.cx.lying;
        let observed = catch_unwind(AssertUnwindSafe(|| {
            let post = self.observe();
            if touched.0 {
                wf_map("map A", &self.ma.g.val, lying);
                self.cx.note_state(1, &post.ma);
            }
            if touched.1 {
                wf_map("map B", &self.mb.g.val, lying);
                self.cx.note_state(2, &post.mb);
            }
            if touched.2 {
                wf_set("set A", &self.sa.g.val, lying);
                self.cx.note_state(3, &post.sa);
            }
            if touched.3 {
                wf_set("set B", &self.sb.g.val, lying);
                self.cx.note_state(4, &post.sb);
            }
            post
        }));
        let post = match observed {
            Ok(p) => p,
            Err(p) => {
                let msg = p.downcast_ref::<&str>().map(|s| s.to_string()).or_else(|| p.downcast_ref::<String>().cloned()).unwrap_or_default();
                violate("unusable-after", format!("{}: iterating / looking up in a container after the operation panicked: {msg}", op_name(op)));
                self.broken = true;
                return (ended, lenb);
            }
        };
        self.places(&post, ended == Ended::Injected || ended == Ended::Watchdog);
        self.op_rules(op, &pre, &post, &ended, &out);
        self.cx.empty_pockets();
        (ended, lenb)
    }

    /// Conservation: every live object is in exactly one place.
    fn places(&mut self, post: &Pre, tolerate_leak: bool) {
        let mut loc: BTreeMap<(u64, u8), u32> = BTreeMap::new();
        let mut anon_loc = [0i64; 2];
        for (snap, is_map) in [(&post.ma, true), (&post.mb, true), (&post.sa, false), (&post.sb, false)] {
            for e in snap.iter() {
                if K::ANON {
                    anon_loc[0] += 1;
                } else if e.kbad == 0 {
                    *loc.entry((e.kid, 0)).or_insert(0) += 1;
                }
                if is_map {
                    if V::ANON {
                        anon_loc[1] += 1;
                    } else if e.vbad == 0 {
                        *loc.entry((e.vid, 1)).or_insert(0) += 1;
                    }
                }
            }
        }
        for k in &self.cx.pocket_k {
            if K::ANON {
                anon_loc[0] += 1;
            } else {
                *loc.entry((k.peek().id, 0)).or_insert(0) += 1;
            }
        }
        for v in &self.cx.pocket_v {
            if V::ANON {
                anon_loc[1] += 1;
            } else {
                *loc.entry((v.peek().id, 1)).or_insert(0) += 1;
            }
        }
        let cx = &mut self.cx;
        let mut new_leaks: Vec<u64> = Vec::new();
        let mut reappeared_out = false;
        env::with(|e| {
            let mut bad: Vec<(&'static str, String)> = Vec::new();
            let mut reappeared = false;
            for (idx, o) in e.objs.iter().enumerate() {
                let id = idx as u64 + 1;
                let n = loc.get(&(id, o.kind)).copied().unwrap_or(0);
                if o.live() {
                    if n == 0 {
                        if cx.forgotten.contains(&id) || cx.leaked_ok.contains(&id) {
                            continue;
                        }
                        if tolerate_leak {
                            new_leaks.push(id);
                        } else {
                            bad.push(("no-place", format!("{} #{} (class {}) is alive but neither stored, nor handed back, nor destroyed", env::kname(o.kind), id, o.class)));
                        }
                    } else if n > 1 {
                        bad.push(("two-places", format!("{} #{} is in {n} places at once", env::kname(o.kind), id)));
                    } else if cx.forgotten.contains(&id) {
                        // it was still inside a holder that was forgotten, and is visible in exactly one place:
                        // the implementation left it stored in the container the drain came from (as std's own
                        // drains may). That is one place - an ordinary stored element again, to be destroyed once.
                        cx.forgotten.retain(|x| *x != id);
                        reappeared = true;
                    }
                } else if cx.forgotten.contains(&id) {
                    bad.push(("double-destruction", format!("{} #{} was inside a forgotten holder but has been destroyed", env::kname(o.kind), id)));
                    cx.forgotten.retain(|x| *x != id);
                }
            }
            for k in 0..2 {
                let live = e.anon_live[k];
                let located = anon_loc[k] + cx.anon_forgotten[k] + cx.anon_leaked_ok[k];
                if live > located {
                    if tolerate_leak {
                        cx.anon_leaked_ok[k] += live - located;
                    } else {
                        bad.push(("no-place", format!("{} anonymous {}(s) alive but in no place", live - located, env::kname(k as u8))));
                        cx.anon_leaked_ok[k] += live - located;
                    }
                } else if live < located && cx.anon_forgotten[k] >= located - live {
                    // (anonymous objects of a forgotten drain that were left stored in its container: see above)
                    cx.anon_forgotten[k] -= located - live;
                    reappeared = true;
                } else if live < located {
                    bad.push(("two-places", format!("{} anonymous {}(s) stored or held but only {} alive", located, env::kname(k as u8), live)));
                    cx.anon_leaked_ok[k] -= (located - live).min(cx.anon_leaked_ok[k]);
                }
            }
            for (r, d) in bad.into_iter().take(4) {
                e.violate(r, d);
            }
            reappeared_out = reappeared;
        });
        if reappeared_out {
            cx.probe("forgotten_drain_left_elements_stored");
        }
        if !new_leaks.is_empty() {
            cx.probe("leak_tolerated_after_fault");
        }
        cx.leaked_ok.extend(new_leaks);
    }
}

fn final_ledger<K: SimK, V: SimV>(cx: &Cx<K, V>) {
    env::with(|e| {
        let mut bad = Vec::new();
        for (idx, o) in e.objs.iter().enumerate() {
            let id = idx as u64 + 1;
            if o.live() && !cx.forgotten.contains(&id) && !cx.leaked_ok.contains(&id) {
                bad.push(format!("{} #{} (class {}, born in op {}) was never destroyed", env::kname(o.kind), id, o.class, o.born_op));
            }
        }
        for k in 0..2 {
            let extra = e.anon_live[k] - cx.anon_forgotten[k] - cx.anon_leaked_ok[k];
            if extra != 0 {
                bad.push(format!("{extra} anonymous {}(s) never destroyed", env::kname(k as u8)));
            }
        }
        for d in bad.into_iter().take(4) {
            e.violate("not-destroyed-once", d);
        }
    });
}
