//! A large-capacity configuration for the allocator seam (C06): `get_disjoint_mut` with many keys
//! at once, plus cloning, comparing, retaining and draining, on a `Map<u32, u64, 256>`. Plain
//! integer elements: no callbacks, only the allocator log, the address-range check and the
//! aliasing check decide here.

use crate::ops_map::{range_of, win};
use crate::payload::{SimK, SimV};
use crate::world::{violate, Cx, Slot};
use micromap::Map;

const BIG: usize = 256;

fn many<K: SimK, V: SimV, const J: usize>(m: &mut Map<u32, u64, BIG>, cx: &mut Cx<K, V>, fill: usize) {
    let aw = cx.cfg.alloc_window;
    let (base, size) = range_of(m);
    // pairwise different keys: every third one is absent when the map is not full
    let keys: [u32; J] = core::array::from_fn(|i| if i % 3 == 2 && fill < BIG { 100_000 + i as u32 } else { i as u32 });
    let refs: [&u32; J] = core::array::from_fn(|i| &keys[i]);
    let got = win!(aw, m.get_disjoint_mut(refs));
    let _p = crate::alloc::Pause::new();
    let mut addrs: Vec<usize> = Vec::new();
    let mut found = 0usize;
    for (i, o) in got.into_iter().enumerate() {
        let present = (keys[i] as usize) < fill;
        match o {
            Some(v) => {
                found += 1;
                let a = v as *mut u64 as usize;
                if a < base || a + 8 > base + size {
                    violate("outside-container", format!("get_disjoint_mut with {J} keys on a map of capacity {BIG}: a reference lies outside the container value"));
                }
                if addrs.contains(&a) {
                    violate("aliasing", format!("get_disjoint_mut with {J} keys returned two references to one value"));
                }
                addrs.push(a);
                *v = 7_000_000 + i as u64;
                if !present {
                    cx.dg(0xBAD);
                }
            }
            None => {
                if present {
                    cx.dg(0xBAD2);
                }
            }
        }
    }
    cx.dg(found as u64);
}

pub fn big_disjoint<K: SimK, V: SimV>(cx: &mut Cx<K, V>, fill: u16, sel: u8) {
    let aw = cx.cfg.alloc_window;
    let fill = (fill as usize) % (BIG + 1);
    cx.probe("big_map_256");
    let mut slot: Slot<Map<u32, u64, BIG>> = Slot::new(Map::new());
    let m = &mut slot.g.val;
    for i in 0..fill {
        win!(aw, m.insert(i as u32, i as u64));
    }
    match sel % 8 {
        0 => many::<K, V, 3>(m, cx, fill),
        1 => many::<K, V, 21>(m, cx, fill),
        2 => many::<K, V, 64>(m, cx, fill),
        3 => many::<K, V, 170>(m, cx, fill),
        4 => many::<K, V, 171>(m, cx, fill),
        5 => many::<K, V, 200>(m, cx, fill),
        6 => many::<K, V, 256>(m, cx, fill),
        _ => many::<K, V, 100>(m, cx, fill),
    }
    if fill >= 171 && sel % 8 >= 4 && sel % 8 <= 6 {
        cx.probe("big_disjoint_more_than_170_hits_possible");
    }
    // the rest of the API at this size, under the same allocator window
    let c2 = win!(aw, m.clone());
    let same = win!(aw, *m == c2);
    cx.dg(same as u64);
    let mut i = 0u32;
    win!(aw, m.retain(|_, _| {
        i += 1;
        i % 2 == 0
    }));
    let n = win!(aw, m.iter().count());
    if n != m.len() || m.len() > BIG {
        violate("len-vs-iteration", format!("Map<u32, u64, {BIG}>: len()={} but iteration yields {n}", m.len()));
    }
    let d = win!(aw, m.drain().count());
    cx.dg(d as u64);
    win!(aw, drop(c2));
    if !slot.canaries_ok() {
        violate("canary", "a guard word next to the 256-slot map changed".into());
    }
}

// ---------------------------------------------------------------- irreflexive zero-sized elements

/// A zero-sized element that never equals anything, itself included (a lawful `PartialEq`, like NaN):
/// a set can hold several of them, all at one address.
pub struct NanZ;

impl PartialEq for NanZ {
    fn eq(&self, _: &Self) -> bool {
        false
    }
}
impl core::fmt::Debug for NanZ {
    fn fmt(&self, f: &mut core::fmt::Formatter<'_>) -> core::fmt::Result {
        f.pad("z")
    }
}
impl core::fmt::Display for NanZ {
    fn fmt(&self, f: &mut core::fmt::Formatter<'_>) -> core::fmt::Result {
        f.pad("Z")
    }
}

struct ZList(usize, bool);
impl core::fmt::Debug for ZList {
    fn fmt(&self, f: &mut core::fmt::Formatter<'_>) -> core::fmt::Result {
        if self.1 {
            f.debug_map().entries((0..self.0).map(|_| (NanZ, NanZ))).finish()
        } else {
            f.debug_set().entries((0..self.0).map(|_| NanZ)).finish()
        }
    }
}

macro_rules! spec_dbg {
    ($sink:expr, $alt:expr, $spec:expr, $x:expr) => {{
        use core::fmt::Write;
        match ($alt, $spec % 8) {
            (false, 0) => write!($sink, "{:?}", $x),
            (false, 1) => write!($sink, "{:40?}", $x),
            (false, 2) => write!($sink, "{:>40?}", $x),
            (false, 3) => write!($sink, "{:*^40?}", $x),
            (false, 4) => write!($sink, "{:.3?}", $x),
            (false, 5) => write!($sink, "{:+?}", $x),
            (false, 6) => write!($sink, "{:08?}", $x),
            (false, _) => write!($sink, "{:<3?}", $x),
            (true, 0) => write!($sink, "{:#?}", $x),
            (true, 1) => write!($sink, "{:#40?}", $x),
            (true, 2) => write!($sink, "{:>#40?}", $x),
            (true, 3) => write!($sink, "{:*^#40?}", $x),
            (true, 4) => write!($sink, "{:#.3?}", $x),
            (true, 5) => write!($sink, "{:+#?}", $x),
            (true, 6) => write!($sink, "{:#08?}", $x),
            (true, _) => write!($sink, "{:<#3?}", $x),
        }
    }};
}
macro_rules! spec_disp {
    ($sink:expr, $spec:expr, $x:expr) => {{
        use core::fmt::Write;
        match $spec % 8 {
            0 => write!($sink, "{}", $x),
            1 => write!($sink, "{:40}", $x),
            2 => write!($sink, "{:>40}", $x),
            3 => write!($sink, "{:*^40}", $x),
            4 => write!($sink, "{:.3}", $x),
            5 => write!($sink, "{:+}", $x),
            6 => write!($sink, "{:08}", $x),
            _ => write!($sink, "{:#}", $x),
        }
    }};
}

/// Display / Debug of a set (or map) of `n` irreflexive zero-sized elements into a healthy sink.
pub fn fmt_irreflexive<K: SimK, V: SimV>(cx: &mut Cx<K, V>, n: u8, map: bool, style: crate::plan::Style, spec: u8) {
    use crate::plan::Style;
    let aw = cx.cfg.alloc_window;
    let n = (n as usize).min(6);
    cx.probe("format_irreflexive_zero_sized");
    let mut sink = crate::sink::Sink::new(8192, None);
    let r = if map {
        let mut m: micromap::Map<NanZ, NanZ, 6> = micromap::Map::new();
        for _ in 0..n {
            win!(aw, m.insert(NanZ, NanZ));
        }
        if m.len() != n {
            return;
        }
        match style {
            Style::Display => win!(aw, spec_disp!(sink, spec, m)),
            s => win!(aw, spec_dbg!(sink, s == Style::Alt, spec, m)),
        }
    } else {
        let mut s: micromap::Set<NanZ, 6> = micromap::Set::new();
        for _ in 0..n {
            win!(aw, s.insert(NanZ));
        }
        if s.len() != n {
            return;
        }
        match style {
            Style::Display => win!(aw, spec_disp!(sink, spec, s)),
            st => win!(aw, spec_dbg!(sink, st == Style::Alt, spec, s)),
        }
    };
    let _p = crate::alloc::Pause::new();
    let mut accept: Vec<String> = Vec::new();
    match style {
        Style::Display => {
            let item = |fwd: bool| -> String {
                let mut e = String::new();
                if fwd {
                    let _ = spec_disp!(e, spec, NanZ);
                } else {
                    e.push('Z');
                }
                e
            };
            for fwd in [false, true] {
                let one = if map { format!("{}: {}", item(fwd), item(fwd)) } else { item(fwd) };
                let lit = format!("{{{}}}", vec![one; n].join(", "));
                if !accept.contains(&lit) {
                    accept.push(lit.clone());
                }
                if !fwd {
                    let mut padded = String::new();
                    let _ = spec_disp!(padded, spec, lit.as_str());
                    if !accept.contains(&padded) {
                        accept.push(padded);
                    }
                }
            }
        }
        s => {
            let mut e = String::new();
            let _ = spec_dbg!(e, s == Style::Alt, spec, ZList(n, map));
            accept.push(e);
        }
    }
    if r.is_err() || sink.failed {
        if !sink.failed {
            violate("wrong-text", format!("formatting {n} irreflexive zero-sized elements into a healthy sink reported an error"));
        }
        return;
    }
    if !accept.iter().any(|a| a == sink.text()) {
        violate("wrong-text", format!("{} of {n} irreflexive zero-sized elements rendered {:?} instead of {:?}", if map { "a map" } else { "a set" }, sink.text(), accept[0]));
    }
}
