//! A large-capacity configuration for the allocator seam (C06): `get_disjoint_mut` with many keys
//! at once, plus cloning, comparing, retaining and draining, on a `Map<u32, u64, 256>`. Plain
//! integer elements: no callbacks, only the allocator log, the address-range check and the
//! aliasing check decide here.

use crate::ops_map::{range_of, win};
use crate::payload::{SimK, SimV};
use crate::world::{violate, Cx, Slot};
use micromap::Map;

const BIG: usize = 256;

fn many<K: SimK, V: SimV, const J: usize>(m: &mut Map<u32, u64, BIG>, cx: &mut Cx<K, V>, fill: usize) {
    let aw = cx.cfg.alloc_window;
    let (base, size) = range_of(m);
    // pairwise different keys: every third one is absent when the map is not full
    let keys: [u32; J] = core::array::from_fn(|i| if i % 3 == 2 && fill < BIG { 100_000 + i as u32 } else { i as u32 });
    let refs: [&u32; J] = core::array::from_fn(|i| &keys[i]);
    let got = win!(aw, m.get_disjoint_mut(refs));
    let _p = crate::alloc::Pause::new();
    let mut addrs: Vec<usize> = Vec::new();
    let mut found = 0usize;
    for (i, o) in got.into_iter().enumerate() {
        let present = (keys[i] as usize) < fill;
        match o {
            Some(v) => {
                found += 1;
                let a = v as *mut u64 as usize;
                if a < base || a + 8 > base + size {
                    violate("outside-container", format!("get_disjoint_mut with {J} keys on a map of capacity {BIG}: a reference lies outside the container value"));
                }
                if addrs.contains(&a) {
                    violate("aliasing", format!("get_disjoint_mut with {J} keys returned two references to one value"));
                }
                addrs.push(a);
                *v = 7_000_000 + i as u64;
                if !present {
                    cx.dg(0xBAD);
                }
            }
            None => {
                if present {
                    cx.dg(0xBAD2);
                }
            }
        }
    }
    cx.dg(found as u64);
}

pub fn big_disjoint<K: SimK, V: SimV>(cx: &mut Cx<K, V>, fill: u16, sel: u8) {
    let aw = cx.cfg.alloc_window;
    let fill = (fill as usize) % (BIG + 1);
    cx.probe("big_map_256");
    let mut slot: Slot<Map<u32, u64, BIG>> = Slot::new(Map::new());
    let m = &mut slot.g.val;
    for i in 0..fill {
        win!(aw, m.insert(i as u32, i as u64));
    }
    match sel % 8 {
        0 => many::<K, V, 3>(m, cx, fill),
        1 => many::<K, V, 21>(m, cx, fill),
        2 => many::<K, V, 64>(m, cx, fill),
        3 => many::<K, V, 170>(m, cx, fill),
        4 => many::<K, V, 171>(m, cx, fill),
        5 => many::<K, V, 200>(m, cx, fill),
        6 => many::<K, V, 256>(m, cx, fill),
        _ => many::<K, V, 100>(m, cx, fill),
    }
    if fill >= 171 && sel % 8 >= 4 && sel % 8 <= 6 {
        cx.probe("big_disjoint_more_than_170_hits_possible");
    }
    // the rest of the API at this size, under the same allocator window
    let c2 = win!(aw, m.clone());
    let same = win!(aw, *m == c2);
    cx.dg(same as u64);
    let mut i = 0u32;
    win!(aw, m.retain(|_, _| {
        i += 1;
        i % 2 == 0
    }));
    let n = win!(aw, m.iter().count());
    if n != m.len() || m.len() > BIG {
        violate("len-vs-iteration", format!("Map<u32, u64, {BIG}>: len()={} but iteration yields {n}", m.len()));
    }
    let d = win!(aw, m.drain().count());
    cx.dg(d as u64);
    win!(aw, drop(c2));
    if !slot.canaries_ok() {
        violate("canary", "a guard word next to the 256-slot map changed".into());
    }
}
