//! The simulator environment: global event counter, object ledger, fault plan,
//! equality oracle (truthful or Byzantine), trace hash and violation log.
//!
//! One `Env` per thread, one run at a time per thread. Nothing in here reads a
//! clock, draws from a PRNG outside the recorded lie stream, or depends on
//! addresses, so an execution is a pure function of (plan, code under test).

use crate::alloc::Pause;
use serde::{Deserialize, Serialize};
use std::cell::RefCell;

pub const MAGIC_K: u32 = 0x4B45_5921;
pub const MAGIC_V: u32 = 0x5641_4C21;
pub const POISON32: u32 = 0xA5A5_A5A5;
pub const WATCHDOG_CALLBACKS: u32 = 2_000_000;

pub const NCB: usize = 18;

#[derive(Clone, Copy, PartialEq, Eq, Debug, Serialize, Deserialize, PartialOrd, Ord)]
#[repr(u8)]
pub enum Cb {
    EqK = 0,
    EqQ,
    EqV,
    CloneK,
    CloneV,
    DropK,
    DropV,
    Pred,
    Closure,
    Dflt,
    SrcNext,
    SrcHint,
    Borrow,
    FmtK,
    FmtV,
    Sink,
    Ser,
    De,
}

pub const CB_NAMES: [&str; NCB] = [
    "eq_key", "eq_borrowed", "eq_value", "clone_key", "clone_value", "drop_key", "drop_value",
    "predicate", "closure", "default", "source_next", "source_size_hint", "borrow", "fmt_key",
    "fmt_value", "sink_write", "ser_token", "de_token",
];

/// What a callback can see of a payload object without running user code.
#[derive(Clone, Copy, Debug, Default)]
pub struct Peek {
    /// 0 = magic ok, 1 = poison pattern (never initialised), 2 = garbage
    pub bad: u8,
    pub id: u64,
    pub class: u32,
    pub tag: u32,
    /// 0 = key, 1 = value
    pub kind: u8,
    /// anonymous (zero-sized) payload: tracked by count, not identity
    pub anon: bool,
    /// payload without drop glue: it has an identity but no ledger record (it cannot report its death)
    pub plain: bool,
}

#[derive(Clone, Debug)]
pub struct Obj {
    pub kind: u8,
    pub class: u32,
    pub tag: u32,
    pub born: u64,
    pub born_op: i32,
    pub died: u64,
    pub from: u64,
}

impl Obj {
    pub fn live(&self) -> bool {
        self.died == 0
    }
}

#[derive(Clone, Debug, Serialize, Deserialize, PartialEq, Eq)]
pub struct Fault {
    /// index of the operation in the plan during which the fault fires
    pub op: usize,
    /// 1-based ordinal among the callbacks (of kind `kind`, or of any kind) of that operation
    pub ord: u32,
    pub kind: Option<Cb>,
}

#[derive(Clone, Debug, Serialize, Deserialize, PartialEq, Eq)]
pub enum Lie {
    Truth,
    AlwaysTrue,
    AlwaysFalse,
    /// answer true with probability p/256, whatever the truth
    Random(u8),
    /// negate the truth with probability p/256
    Flip(u8),
    /// x == x is false, everything else truthful
    NonReflexive,
    /// a == b only when truthful-equal and a is the older object
    Asymmetric,
    /// truthful for the first k comparisons of each operation, then always true
    TruthThenTrue(u32),
    /// truthful for the first k comparisons of each operation, then always false
    TruthThenFalse(u32),
    /// alternate true/false per call
    Alternate,
    /// a different strategy per operation index (index mod len)
    Phase(Vec<Lie>),
}

#[derive(Clone, Debug)]
pub struct Viol {
    pub rule: String,
    pub step: i32,
    pub seq: u64,
    pub detail: String,
    /// an injected panic had fired earlier in this run (or fires in this step)
    pub after_fault: bool,
}

/// Payload of an injected panic. Carrying a type instead of a message lets the
/// harness tell it from panics raised by the code under test.
pub struct Injected(pub u64);
/// Payload used to break out of an operation that makes too many callbacks.
pub struct Watchdog;

#[derive(Clone, Copy, PartialEq, Eq, Debug)]
pub enum Mode {
    /// inside an operation of the plan: callbacks are counted, may be faulted, may lie
    Op,
    /// harness observing / cleaning up: truthful, never faulted
    Observe,
}

pub struct SplitMix(pub u64);

impl SplitMix {
    #[inline]
    pub fn next(&mut self) -> u64 {
        self.0 = self.0.wrapping_add(0x9E37_79B9_7F4A_7C15);
        let mut z = self.0;
        z = (z ^ (z >> 30)).wrapping_mul(0xBF58_476D_1CE4_E5B9);
        z = (z ^ (z >> 27)).wrapping_mul(0x94D0_49BB_1331_11EB);
        z ^ (z >> 31)
    }
    #[inline]
    pub fn below(&mut self, n: u64) -> u64 {
        if n == 0 {
            0
        } else {
            self.next() % n
        }
    }
    #[inline]
    pub fn chance(&mut self, num: u64, den: u64) -> bool {
        self.below(den) < num
    }
}

pub fn mix(a: u64, b: u64, c: u64) -> u64 {
    let mut s = SplitMix(a ^ b.rotate_left(21) ^ c.rotate_left(42) ^ 0x5EED_5EED_5EED_5EED);
    s.next();
    s.next() ^ b.wrapping_mul(0x2545_F491_4F6C_DD1D) ^ c
}

pub struct Env {
    pub seq: u64,
    pub objs: Vec<Obj>,
    /// live anonymous (ZST) objects by kind
    pub anon_live: [i64; 2],
    pub anon_made: [u64; 2],
    pub anon_dropped: [u64; 2],
    pub plain_ctr: u64,
    pub mode: Mode,
    pub cur_op: i32,
    pub cb_in_op: u32,
    pub cb_kind_in_op: [u32; NCB],
    /// callbacks made by each finished operation (dry-run information)
    pub cb_per_op: Vec<u32>,
    pub cb_kind_per_op: Vec<[u32; NCB]>,
    pub cb_total: [u64; NCB],
    pub faults: Vec<Fault>,
    pub fault_fired: Vec<bool>,
    /// (fault index, callback kind, seq)
    pub fired_log: Vec<(usize, Cb, u64)>,
    pub any_fault_fired: bool,
    pub lie: Lie,
    pub lie_rng: SplitMix,
    pub lie_borrow: bool,
    pub eq_in_op: u32,
    pub eq_total: u64,
    pub lie_changed: u64,
    pub viols: Vec<Viol>,
    pub trace: u64,
    pub born_in_op: Vec<u64>,
    pub watchdog_tripped: bool,
    /// set while a sink fault is armed: fail the w-th write call
    /// set while an element-formatter fault is armed: the j-th payload Debug/Display call returns Err
    pub fmt_elem_fail_at: Option<u32>,
    pub fmt_elem_calls: u32,
    pub fmt_elem_failed: bool,
}

impl Env {
    pub fn new() -> Self {
        Env {
            seq: 0,
            objs: Vec::new(),
            anon_live: [0; 2],
            anon_made: [0; 2],
            anon_dropped: [0; 2],
            plain_ctr: 0,
            mode: Mode::Observe,
            cur_op: -1,
            cb_in_op: 0,
            cb_kind_in_op: [0; NCB],
            cb_per_op: Vec::new(),
            cb_kind_per_op: Vec::new(),
            cb_total: [0; NCB],
            faults: Vec::new(),
            fault_fired: Vec::new(),
            fired_log: Vec::new(),
            any_fault_fired: false,
            lie: Lie::Truth,
            lie_rng: SplitMix(0),
            lie_borrow: false,
            eq_in_op: 0,
            eq_total: 0,
            lie_changed: 0,
            viols: Vec::new(),
            trace: 0xcbf2_9ce4_8422_2325,
            born_in_op: Vec::new(),
            watchdog_tripped: false,
            fmt_elem_fail_at: None,
            fmt_elem_calls: 0,
            fmt_elem_failed: false,
        }
    }

    #[inline]
    pub fn th(&mut self, x: u64) {
        // FNV-1a over 8 bytes at a time
        let mut h = self.trace;
        for i in 0..8 {
            h ^= (x >> (i * 8)) & 0xff;
            h = h.wrapping_mul(0x0000_0100_0000_01B3);
        }
        self.trace = h;
    }

    pub fn violate(&mut self, rule: &str, detail: String) {
        self.th(0xBAD);
        for b in rule.bytes() {
            self.th(b as u64);
        }
        if self.viols.len() < 64 {
            self.viols.push(Viol {
                rule: rule.to_string(),
                step: self.cur_op,
                seq: self.seq,
                detail,
                after_fault: self.any_fault_fired,
            });
        }
    }

    fn lie_for_op(&self) -> Lie {
        match &self.lie {
            Lie::Phase(v) if !v.is_empty() => {
                let i = if self.cur_op < 0 { 0 } else { self.cur_op as usize % v.len() };
                v[i].clone()
            }
            l => l.clone(),
        }
    }

    fn decide(&mut self, truth: bool, a: &Peek, b: &Peek) -> bool {
        let l = self.lie_for_op();
        let n = self.eq_in_op;
        let r = match l {
            Lie::Truth | Lie::Phase(_) => truth,
            Lie::AlwaysTrue => true,
            Lie::AlwaysFalse => false,
            Lie::Random(p) => (self.lie_rng.next() & 0xff) < p as u64,
            Lie::Flip(p) => {
                if (self.lie_rng.next() & 0xff) < p as u64 {
                    !truth
                } else {
                    truth
                }
            }
            Lie::NonReflexive => {
                if !a.anon && a.id == b.id && a.id != 0 {
                    false
                } else {
                    truth
                }
            }
            Lie::Asymmetric => truth && a.id <= b.id && !(a.id == b.id && a.id != 0),
            Lie::TruthThenTrue(k) => {
                if n <= k {
                    truth
                } else {
                    true
                }
            }
            Lie::TruthThenFalse(k) => {
                if n <= k {
                    truth
                } else {
                    false
                }
            }
            Lie::Alternate => n % 2 == 0,
        };
        if r != truth {
            self.lie_changed += 1;
        }
        r
    }

    /// Validates an object a callback received. Returns true when it is a live, known object.
    fn validate(&mut self, what: &str, p: &Peek) -> bool {
        if p.plain {
            if p.bad != 0 {
                self.violate("use-of-nonlive", format!("{what}: {} used as a {}", if p.bad == 1 { "never-initialised slot (poison)" } else { "garbage" }, kname(p.kind)));
                return false;
            }
            return true;
        }
        if p.anon {
            if self.anon_live[p.kind as usize] <= 0 {
                self.violate(
                    "use-of-nonlive",
                    format!("{what}: anonymous {} used while none is live", kname(p.kind)),
                );
                return false;
            }
            return true;
        }
        if p.bad == 1 {
            self.violate("use-of-nonlive", format!("{what}: never-initialised slot (poison) used as a {}", kname(p.kind)));
            return false;
        }
        if p.bad != 0 || p.id == 0 || p.id as usize > self.objs.len() {
            self.violate("use-of-nonlive", format!("{what}: garbage used as a {}", kname(p.kind)));
            return false;
        }
        let o = &self.objs[p.id as usize - 1];
        if o.kind != p.kind || o.class != p.class {
            self.violate("use-of-nonlive", format!("{what}: corrupted {} #{}", kname(p.kind), p.id));
            return false;
        }
        if !o.live() {
            let died = o.died;
            self.violate(
                "use-of-nonlive",
                format!("{what}: {} #{} was destroyed at event {}", kname(p.kind), p.id, died),
            );
            return false;
        }
        true
    }

    /// Common entry of every callback. Returns true when the simulator wants this callback to panic.
    fn enter(&mut self, kind: Cb, a: Option<&Peek>, b: Option<&Peek>) -> bool {
        self.seq += 1;
        self.cb_total[kind as usize] += 1;
        let mut ok = true;
        if let Some(a) = a {
            ok &= self.validate(CB_NAMES[kind as usize], a);
        }
        if let Some(b) = b {
            ok &= self.validate(CB_NAMES[kind as usize], b);
        }
        let _ = ok;
        if self.mode != Mode::Op {
            return false;
        }
        self.th(0x100 + kind as u64);
        self.th(a.map_or(0, |p| p.id));
        self.th(b.map_or(0, |p| p.id));
        self.cb_in_op += 1;
        self.cb_kind_in_op[kind as usize] += 1;
        if self.cb_in_op > WATCHDOG_CALLBACKS && !self.watchdog_tripped {
            self.watchdog_tripped = true;
            self.violate("nonterminating-op", format!("more than {WATCHDOG_CALLBACKS} callbacks inside one operation"));
            return true;
        }
        if std::thread::panicking() {
            return false;
        }
        for i in 0..self.faults.len() {
            if self.fault_fired[i] {
                continue;
            }
            let f = &self.faults[i];
            if f.op as i32 != self.cur_op {
                continue;
            }
            let hit = match f.kind {
                None => f.ord == self.cb_in_op,
                Some(k) => k == kind && f.ord == self.cb_kind_in_op[kind as usize],
            };
            if hit {
                self.fault_fired[i] = true;
                self.any_fault_fired = true;
                self.fired_log.push((i, kind, self.seq));
                self.th(0xFA17);
                return true;
            }
        }
        false
    }

    pub fn new_obj(&mut self, kind: u8, class: u32, tag: u32, from: u64) -> u64 {
        self.seq += 1;
        self.objs.push(Obj { kind, class, tag, born: self.seq, born_op: self.cur_op, died: 0, from });
        let id = self.objs.len() as u64;
        if self.mode == Mode::Op {
            self.th(0x200 + kind as u64);
            self.th(id);
        }
        self.born_in_op.push(id);
        id
    }

    pub fn begin_op(&mut self, i: usize) {
        self.cur_op = i as i32;
        self.cb_in_op = 0;
        self.cb_kind_in_op = [0; NCB];
        self.eq_in_op = 0;
        self.born_in_op.clear();
        self.watchdog_tripped = false;
        self.mode = Mode::Op;
        self.th(0x0B00 + i as u64);
    }

    pub fn end_op(&mut self) {
        self.mode = Mode::Observe;
        self.cb_per_op.push(self.cb_in_op);
        self.cb_kind_per_op.push(self.cb_kind_in_op);
        self.th(0x0E00);
    }
}

pub fn kname(k: u8) -> &'static str {
    if k == 0 {
        "key"
    } else {
        "value"
    }
}

thread_local! {
    static ENV: RefCell<Env> = RefCell::new(Env::new());
}

#[inline]
pub fn with<R>(f: impl FnOnce(&mut Env) -> R) -> R {
    ENV.with(|e| f(&mut e.borrow_mut()))
}

pub fn reset(faults: Vec<Fault>, lie: Lie, lie_seed: u64, lie_borrow: bool) {
    with(|e| {
        *e = Env::new();
        e.fault_fired = vec![false; faults.len()];
        e.faults = faults;
        e.lie = lie;
        e.lie_rng = SplitMix(lie_seed);
        e.lie_borrow = lie_borrow;
    });
}

fn raise(watch: bool, seq: u64) -> ! {
    if watch {
        std::panic::panic_any(Watchdog)
    } else {
        std::panic::panic_any(Injected(seq))
    }
}

/// A callback that only observes (and may be told to panic).
pub fn touch(kind: Cb, a: Option<&Peek>, b: Option<&Peek>) {
    let _p = Pause::new();
    let (boom, watch, seq) = with(|e| {
        let boom = e.enter(kind, a, b);
        (boom, e.watchdog_tripped && boom && e.cb_in_op > WATCHDOG_CALLBACKS, e.seq)
    });
    if boom {
        drop(_p);
        raise(watch, seq);
    }
}

/// An equality callback: validates, may panic, and returns the answer the simulator chose.
pub fn eq(kind: Cb, truth: bool, a: &Peek, b: &Peek) -> bool {
    let _p = Pause::new();
    let (boom, watch, seq, ans) = with(|e| {
        let boom = e.enter(kind, if a.id != 0 || a.anon || a.bad != 0 { Some(a) } else { None }, if b.id != 0 || b.anon || b.bad != 0 { Some(b) } else { None });
        let mut ans = truth;
        if e.mode == Mode::Op {
            e.eq_in_op += 1;
            e.eq_total += 1;
            if e.lie != Lie::Truth {
                ans = e.decide(truth, a, b);
            }
            e.th(ans as u64);
        }
        (boom, e.watchdog_tripped && boom && e.cb_in_op > WATCHDOG_CALLBACKS, e.seq, ans)
    });
    if boom {
        drop(_p);
        raise(watch, seq);
    }
    ans
}

/// Creation of a payload object (by the harness, by `Clone`, by `Default`, by deserialisation).
pub fn born(kind: u8, class: u32, tag: u32, from: u64) -> u64 {
    let _p = Pause::new();
    with(|e| e.new_obj(kind, class, tag, from))
}

/// Identity for a payload object without drop glue (not recorded in the ledger).
pub fn born_plain() -> u64 {
    let _p = Pause::new();
    with(|e| {
        e.seq += 1;
        e.plain_ctr += 1;
        (1u64 << 39) | e.plain_ctr
    })
}

/// Does this peek denote an object that is alive as far as the simulator can tell?
pub fn peek_live(p: &Peek) -> bool {
    if p.anon {
        return true;
    }
    if p.plain {
        return p.bad == 0;
    }
    p.bad == 0 && with(|e| p.id != 0 && (p.id as usize) <= e.objs.len() && e.objs[p.id as usize - 1].live())
}

pub fn born_anon(kind: u8) {
    let _p = Pause::new();
    with(|e| {
        e.seq += 1;
        e.anon_live[kind as usize] += 1;
        e.anon_made[kind as usize] += 1;
    });
}

/// Destruction of a payload object. Returns true when the object was a live known
/// object (so its owned resources may be released).
pub fn dropped(kind: Cb, p: &Peek) -> bool {
    let _p = Pause::new();
    let (valid, boom, watch, seq) = with(|e| {
        // validity first, with the dedicated rule name for a second destruction
        let mut valid = true;
        if p.anon {
            if e.anon_live[p.kind as usize] <= 0 {
                e.violate("double-destruction", format!("anonymous {} destroyed while none is live", kname(p.kind)));
                valid = false;
            } else {
                e.anon_live[p.kind as usize] -= 1;
                e.anon_dropped[p.kind as usize] += 1;
            }
        } else if p.bad == 1 {
            e.violate("use-of-nonlive", format!("never-initialised slot (poison) destroyed as a {}", kname(p.kind)));
            valid = false;
        } else if p.bad != 0 || p.id == 0 || p.id as usize > e.objs.len() {
            e.violate("use-of-nonlive", format!("garbage destroyed as a {}", kname(p.kind)));
            valid = false;
        } else {
            let seqn = e.seq + 1;
            let o = &mut e.objs[p.id as usize - 1];
            if o.kind != p.kind || o.class != p.class {
                e.violate("use-of-nonlive", format!("corrupted {} #{} destroyed", kname(p.kind), p.id));
                valid = false;
            } else if !o.live() {
                let died = o.died;
                e.violate(
                    "double-destruction",
                    format!("{} #{} destroyed again (first destroyed at event {})", kname(p.kind), p.id, died),
                );
                valid = false;
            } else {
                o.died = seqn;
            }
        }
        // the destructor is a callback too (it may be told to panic); validation is done above
        let boom = e.enter(kind, None, None);
        if e.mode == Mode::Op {
            e.th(p.id);
        }
        (valid, boom, e.watchdog_tripped && boom && e.cb_in_op > WATCHDOG_CALLBACKS, e.seq)
    });
    if boom {
        // the caller's owned resources are released by the caller before the panic propagates:
        // we return through a flag instead of unwinding here
        PENDING_PANIC.with(|c| c.set(Some((watch, seq))));
    }
    valid
}

thread_local! {
    static PENDING_PANIC: std::cell::Cell<Option<(bool, u64)>> = const { std::cell::Cell::new(None) };
}

/// Called by a destructor after it released its resources: raises the injected panic, if any.
pub fn finish_drop() {
    if let Some((watch, seq)) = PENDING_PANIC.with(|c| c.take()) {
        raise(watch, seq);
    }
}

/// Arms (or disarms) the element-formatter fault for the rendering about to run.
pub fn arm_fmt_elem(fail_at: Option<u32>) {
    with(|e| {
        e.fmt_elem_fail_at = fail_at;
        e.fmt_elem_calls = 0;
        e.fmt_elem_failed = false;
    });
}

/// Did the armed element-formatter fault fire? (also disarms it)
pub fn take_fmt_elem_failed() -> bool {
    with(|e| {
        e.fmt_elem_fail_at = None;
        std::mem::take(&mut e.fmt_elem_failed)
    })
}

/// Called by every payload `Debug`/`Display`: true when this call has to return `Err`.
pub fn fmt_elem_fails() -> bool {
    with(|e| {
        if e.mode != Mode::Op || e.fmt_elem_fail_at.is_none() {
            return false;
        }
        e.fmt_elem_calls += 1;
        if e.fmt_elem_fail_at == Some(e.fmt_elem_calls) {
            e.fmt_elem_failed = true;
            e.th(0xFE11);
            true
        } else {
            false
        }
    })
}
