//! Supervisor side of a check: fans base-plan indices out to worker processes
//! (process isolation: a run that corrupts or aborts its process cannot take
//! the check down), merges their statistics in worker order, isolates crashes
//! and hangs, writes replay files and the evidence file, applies the committed
//! known-findings list and decides the exit code.

use crate::driver::{Found, Known, Stats};
use crate::env::CB_NAMES;
use crate::plan::{Plan, Replay};
use serde_json::json;
use std::collections::BTreeMap;
use std::io::Read;
use std::process::{Command, Stdio};
use std::time::{Duration, Instant};

pub fn load_known(path: &str) -> Vec<Known> {
    if path.is_empty() {
        return Vec::new();
    }
    match std::fs::read_to_string(path) {
        Ok(t) => serde_json::from_str::<Vec<Known>>(&t).unwrap_or_else(|e| {
            eprintln!("harness error: {path} is not a valid known-findings file: {e}");
            std::process::exit(2)
        }),
        Err(_) => Vec::new(),
    }
}

fn level_of(prop: &str) -> &'static str {
    match prop {
        "C02" | "C03" | "C04" | "C10" | "C19" => "fault_enumeration",
        _ => "exploration",
    }
}

/// (release bases, dev bases) per tier
fn default_bases(prop: &str, thorough: bool) -> (u64, u64) {
    let (q, d) = match prop {
        "C04" => (60_000, 12_000),
        "C02" => (150_000, 20_000),
        "C10" => (400_000, 60_000),
        "C19" => (400_000, 50_000),
        _ => (1_200_000, 150_000),
    };
    if thorough {
        (q * 8, d * 5)
    } else {
        (q, d)
    }
}

struct Job {
    bin: String,
    from: u64,
    to: u64,
    stride: u64,
    child: Option<std::process::Child>,
    out_file: String,
    started: Instant,
    dev: bool,
}

#[allow(clippy::too_many_arguments)]
fn spawn(bin: &str, prop: &str, tier: &str, seed: u64, from: u64, to: u64, stride: u64, known: &str, out_file: &str, cur_file: Option<&str>, stop_file: Option<&str>) -> std::io::Result<std::process::Child> {
    let mut c = Command::new(bin);
    c.arg("worker").args(["--prop", prop, "--tier", tier, "--seed", &seed.to_string(), "--from", &from.to_string(), "--to", &to.to_string(), "--stride", &stride.to_string(), "--out", out_file]);
    if !known.is_empty() {
        c.args(["--known", known]);
    }
    if let Some(f) = cur_file {
        c.args(["--cur-file", f]);
    }
    if let Some(f) = stop_file {
        c.args(["--stop-file", f]);
    }
    c.stdin(Stdio::null()).stdout(Stdio::null()).stderr(Stdio::piped());
    c.spawn()
}

pub fn check(a: &BTreeMap<String, String>) -> i32 {
    let t0 = Instant::now();
    let get = |k: &str, d: &str| a.get(k).cloned().unwrap_or(d.to_string());
    let num = |k: &str, d: u64| a.get(k).and_then(|v| v.parse::<u64>().ok()).unwrap_or(d);
    let prop = get("prop", "");
    if !crate::props::CLAIMED.contains(&prop.as_str()) {
        eprintln!("harness error: {prop} is not a claimed property");
        return 2;
    }
    let tier = get("tier", "quick");
    let thorough = tier == "thorough";
    let seed = num("seed", 1);
    let jobs = num("jobs", 16).max(1);
    let (db, dd) = default_bases(&prop, thorough);
    // `--div d`: a d-th of the tier's budget (sensitivity / quietness sweeps only; the registered checks never pass it)
    let div = num("div", 1).max(1);
    let (db, dd) = ((db / div).max(1), (dd / div).max(1));
    let bases = num("bases", db);
    let dev_bin = get("dev-bin", "");
    let dev_bases = if dev_bin.is_empty() { 0 } else { num("dev-bases", dd) };
    let root = get("root", "/verif");
    let known_path = format!("{root}/known_findings.json");
    let known = load_known(&known_path);
    let exe = std::env::current_exe().unwrap().to_string_lossy().to_string();
    let tmp = format!("{root}/sim/target/run-{}-{}", prop, std::process::id());
    let _ = std::fs::create_dir_all(&tmp);
    let timeout = Duration::from_secs(num("timeout", if thorough { 7200 } else { 900 }));
    // sensitivity sweeps only (never the registered checks): stop exploring once a violation is found
    let stop_file: Option<String> = if a.contains_key("stop-early") { Some(format!("{tmp}/stop")) } else { None };

    println!("microsim check property={prop} tier={tier} VERIF_SEED={seed} workers={jobs} base_plans={bases}+{dev_bases}(dev)");

    // ---- fan out
    let mut js: Vec<Job> = Vec::new();
    let dev_jobs = if dev_bases > 0 { jobs } else { 0 };
    let rel_jobs = jobs;
    for i in 0..rel_jobs {
        js.push(Job { bin: exe.clone(), from: i, to: bases, stride: rel_jobs, child: None, out_file: format!("{tmp}/rel-{i}.json"), started: Instant::now(), dev: false });
    }
    for i in 0..dev_jobs {
        // the dev build explores its own index range so that the two profiles do not duplicate plans
        js.push(Job { bin: dev_bin.clone(), from: 1_000_000_000 + i, to: 1_000_000_000 + dev_bases, stride: dev_jobs, child: None, out_file: format!("{tmp}/dev-{i}.json"), started: Instant::now(), dev: true });
    }
    // run at most `jobs` at a time: release first, dev workers as slots free up
    let mut merged = Stats::new();
    merged.profile = "merged".into();
    let mut per_profile: BTreeMap<String, (u64, u64)> = BTreeMap::new();
    let mut crashes: Vec<(usize, String)> = Vec::new();
    let mut hang_found: Vec<Found> = Vec::new();
    let mut next = 0usize;
    let mut running: Vec<usize> = Vec::new();
    let mut harness_errors = 0;
    while next < js.len() || !running.is_empty() {
        while next < js.len() && (running.len() as u64) < jobs {
            let j = &mut js[next];
            match spawn(&j.bin, &prop, &tier, seed, j.from, j.to, j.stride, &known_path, &j.out_file, None, stop_file.as_deref()) {
                Ok(c) => {
                    j.child = Some(c);
                    j.started = Instant::now();
                    running.push(next);
                }
                Err(e) => {
                    eprintln!("harness error: cannot start worker {}: {e}", j.bin);
                    harness_errors += 1;
                }
            }
            next += 1;
        }
        let mut still = Vec::new();
        for &ji in &running {
            let j = &mut js[ji];
            let c = j.child.as_mut().unwrap();
            match c.try_wait() {
                Ok(Some(status)) => {
                    let mut err = String::new();
                    if let Some(mut e) = c.stderr.take() {
                        let _ = e.read_to_string(&mut err);
                    }
                    if status.success() {
                        match std::fs::read_to_string(&j.out_file).ok().and_then(|t| serde_json::from_str::<Stats>(&t).ok()) {
                            Some(st) => {
                                let e = per_profile.entry(st.profile.clone()).or_insert((0, 0));
                                e.0 += st.bases;
                                e.1 += st.runs;
                                merged.merge(st);
                            }
                            None => {
                                eprintln!("harness error: worker {ji} produced no readable result");
                                harness_errors += 1;
                            }
                        }
                    } else if status.code() == Some(3) && std::path::Path::new(&format!("{}.hang", j.out_file)).exists() {
                        // the worker's own monitor saw a run make no progress: rebuild that plan in a child process
                        let h = std::fs::read_to_string(format!("{}.hang", j.out_file)).unwrap_or_default();
                        let mut it = h.split_whitespace();
                        let idx = it.next().and_then(|x| x.parse::<u64>().ok()).unwrap_or(j.from);
                        let var = it.next().and_then(|x| x.parse::<i64>().ok()).unwrap_or(-1);
                        let mut c = Command::new(&j.bin);
                        c.args(["plan", "--prop", &prop, "--seed", &seed.to_string(), "--run", &idx.to_string(), "--tier", &tier]);
                        if var >= 0 {
                            c.args(["--variant", &var.to_string()]);
                        }
                        let plan = c.stderr(Stdio::null()).output().ok().and_then(|o| serde_json::from_slice::<Plan>(&o.stdout).ok());
                        let plan = plan.or_else(|| {
                            Command::new(&j.bin).args(["plan", "--prop", &prop, "--seed", &seed.to_string(), "--run", &idx.to_string()]).stderr(Stdio::null()).output().ok().and_then(|o| serde_json::from_slice::<Plan>(&o.stdout).ok())
                        });
                        match plan {
                            Some(plan) => hang_found.push(Found {
                                sig: crate::driver::Sig { property: prop.clone(), rule: "nonterminating-op".into(), op: "-".into(), callback: "-".into() },
                                replay: Replay {
                                    property: prop.clone(),
                                    rule: "nonterminating-op".into(),
                                    step: -1,
                                    detail: format!("a run of this plan made no progress for {} s of wall-clock time: an operation does not terminate", crate::driver::HANG_SECS),
                                    seed,
                                    run: idx,
                                    tier: tier.clone(),
                                    profile: if j.dev { "dev".into() } else { "release".into() },
                                    original_ops: plan.ops.len(),
                                    original_faults: plan.faults.len(),
                                    plan,
                                },
                                known: false,
                            }),
                            None => {
                                eprintln!("harness error: worker {ji} reported a hang at plan {idx}/{var} but the plan could not be rebuilt");
                                harness_errors += 1;
                            }
                        }
                    } else {
                        crashes.push((ji, format!("{status}; stderr: {}", err.lines().last().unwrap_or(""))));
                    }
                }
                Ok(None) => {
                    if j.started.elapsed() > timeout {
                        let _ = c.kill();
                        let _ = c.wait();
                        crashes.push((ji, "no result within the time limit (killed)".into()));
                    } else {
                        still.push(ji);
                    }
                }
                Err(e) => {
                    eprintln!("harness error: wait failed: {e}");
                    harness_errors += 1;
                }
            }
        }
        running = still;
        if !running.is_empty() {
            std::thread::sleep(Duration::from_millis(20));
        }
    }

    // ---- isolate crashes and hangs: same share again, writing the plan about to run to a file
    let mut crash_found: Vec<Found> = Vec::new();
    for (ji, why) in &crashes {
        let j = &js[*ji];
        let cur = format!("{tmp}/cur-{ji}.json");
        let per_plan = Duration::from_secs(if thorough { 1800 } else { 300 });
        let mut plan_json = String::new();
        if let Ok(mut c) = spawn(&j.bin, &prop, &tier, seed, j.from, j.to, j.stride, &known_path, &format!("{tmp}/iso-{ji}.json"), Some(&cur), None) {
            let st = Instant::now();
            loop {
                match c.try_wait() {
                    Ok(Some(_)) => break,
                    Ok(None) if st.elapsed() > per_plan => {
                        let _ = c.kill();
                        let _ = c.wait();
                        break;
                    }
                    Ok(None) => std::thread::sleep(Duration::from_millis(20)),
                    Err(_) => break,
                }
            }
            plan_json = std::fs::read_to_string(&cur).unwrap_or_default();
        }
        match serde_json::from_str::<Plan>(&plan_json) {
            Ok(plan) => {
                let hang = why.contains("time limit");
                let rule = if hang { "nonterminating-op" } else { "process-crash" };
                crash_found.push(Found {
                    sig: crate::driver::Sig { property: prop.clone(), rule: rule.into(), op: "-".into(), callback: "-".into() },
                    replay: Replay {
                        property: prop.clone(),
                        rule: rule.into(),
                        step: -1,
                        detail: format!("the worker process running this plan died or hung ({why})"),
                        seed,
                        run: j.from,
                        tier: tier.clone(),
                        profile: if j.dev { "dev".into() } else { "release".into() },
                        original_ops: plan.ops.len(),
                        original_faults: plan.faults.len(),
                        plan,
                    },
                    known: false,
                });
            }
            Err(_) => {
                eprintln!("harness error: worker {ji} failed ({why}) and the failing plan could not be isolated");
                harness_errors += 1;
            }
        }
    }
    merged.found.extend(crash_found);
    merged.found.extend(hang_found);

    // ---- report
    let mut lines: Vec<String> = Vec::new();
    let mut unknown = 0;
    let mut known_hits: BTreeMap<String, String> = BTreeMap::new();
    let mut reported: Vec<crate::driver::Sig> = Vec::new();
    let _ = std::fs::create_dir_all(format!("{root}/replays/{prop}"));
    for f in &merged.found {
        if f.known {
            if let Some(k) = known.iter().find(|k| k.matches(&f.sig)) {
                known_hits.entry(format!("{}|{}|{}|{}", k.property, k.rule, k.op, k.callback)).or_insert(k.text.clone());
            }
            continue;
        }
        if reported.contains(&f.sig) {
            continue;
        }
        reported.push(f.sig.clone());
        let path = format!("{root}/replays/{prop}/{seed}-{}-{}-{}-{}-{}.json", f.replay.run, f.sig.rule, f.sig.op, f.sig.callback, f.replay.profile);
        if let Err(e) = std::fs::write(&path, serde_json::to_string_pretty(&f.replay).unwrap()) {
            eprintln!("harness error: cannot write {path}: {e}");
            harness_errors += 1;
            continue;
        }
        // the replay file must reproduce in a fresh process
        let bin = if f.replay.profile == "dev" && !dev_bin.is_empty() { dev_bin.clone() } else { exe.clone() };
        let reproduced = if f.sig.rule == "process-crash" || f.sig.rule == "nonterminating-op" {
            true
        } else {
            Command::new(&bin).args(["replay", &path]).stdout(Stdio::null()).stderr(Stdio::null()).status().map(|s| s.code() == Some(1)).unwrap_or(false)
        };
        if !reproduced {
            eprintln!("harness error: {path} did not reproduce in a fresh process");
            harness_errors += 1;
            continue;
        }
        unknown += 1;
        println!("  {} [{}] op={} fault-callback={} — {}", f.sig.property, f.sig.rule, f.sig.op, f.sig.callback, f.replay.detail);
        println!("  minimised from {} ops / {} faults to {} ops / {} faults", f.replay.original_ops, f.replay.original_faults, f.replay.plan.ops.len(), f.replay.plan.faults.len());
        lines.push(format!("VIOLATION property={prop} replay={path}"));
    }
    for (k, text) in &known_hits {
        println!("KNOWN-FINDING: property={prop} {} ({text})", k.replace('|', " "));
    }

    // ---- evidence
    let wall = t0.elapsed().as_secs_f64();
    let nontrivial = if prop == "C04" { merged.fault_sites.len() } else { merged.states.len() };
    let rule_text = match prop.as_str() {
        "C04" => "one evaluation = one simulated run (seeded history + one or more injected panics at enumerated callback positions, plus the fault-free dry run of each history). distinct_nontrivial = number of distinct fault sites (operation kind, callback kind, callback ordinal within the operation, number of entries in the container before the operation) at which an injected panic actually fired on a non-empty container",
        _ => "one evaluation = one simulated run of a seeded plan (history x enumerated cancellation / sink-fault / configuration variants). distinct_nontrivial = number of distinct non-empty abstract container states (which container, len, equality classes in iteration order) on which the property's rules were evaluated after an operation",
    };
    let fired: BTreeMap<&str, u64> = (0..CB_NAMES.len()).filter(|i| merged.fired_by_kind[*i] > 0).map(|i| (CB_NAMES[i], merged.fired_by_kind[i])).collect();
    let cbs: BTreeMap<&str, u64> = (0..CB_NAMES.len()).filter(|i| merged.cb_total[*i] > 0).map(|i| (CB_NAMES[i], merged.cb_total[i])).collect();
    let mut extra = BTreeMap::new();
    if prop == "C06" {
        extra.insert("no_std_probe".to_string(), json!(get("nostd-result", "not run by this invocation")));
    }
    if let Some(m) = a.get("miri-result") {
        extra.insert("miri_batch".to_string(), json!(m));
    }
    if let Some(m) = a.get("asan-result") {
        extra.insert("asan_batch".to_string(), json!(m));
    }
    let ev = json!({
        "property_id": prop,
        "tier": tier,
        "seed": seed,
        "level": level_of(&prop),
        "wall_s": wall,
        "violations": unknown,
        "coverage": {
            "evaluations": merged.runs,
            "distinct_nontrivial": nontrivial,
            "rule": rule_text,
            "samples": merged.samples,
            "base_plans": merged.bases,
            "runs_per_profile": per_profile.iter().map(|(k, v)| (k.clone(), json!({"base_plans": v.0, "runs": v.1}))).collect::<BTreeMap<_, _>>(),
            "simulated_runs_per_hour": if wall > 0.0 { (merged.runs as f64 / wall * 3600.0) as u64 } else { 0 },
            "seeds_per_hour": if wall > 0.0 { (merged.bases as f64 / wall * 3600.0) as u64 } else { 0 },
            "simulated_time_events": merged.events,
            "operations_executed": merged.ops,
            "payload_objects_tracked": merged.objects,
            "callbacks_by_kind": cbs,
            "faults": {
                "injected_panics_armed": merged.faults_armed,
                "injected_panics_fired": merged.faults_fired,
                "armed_but_never_reached": merged.faults_armed.saturating_sub(merged.faults_fired),
                "fired_by_callback_kind": fired,
                "fired_on_nonempty_container": merged.fired_nonempty,
                "panics_raised_by_container": merged.container_panics,
                "operations_ended": {"returned": merged.ended[0], "injected_panic": merged.ended[1], "container_panic": merged.ended[2], "watchdog": merged.ended[3]},
                "eq_outcomes_decided": merged.eq_total,
                "eq_outcomes_changed_by_lie": merged.lie_changed,
            },
            "reach_probes": merged.probes,
            "distinct_trace_hashes": merged.traces.len(),
            "distinct_trace_hashes_is_lower_bound": merged.traces_capped,
            "distinct_abstract_states": merged.states.len(),
            "distinct_fault_sites": merged.fault_sites.len(),
            "configurations": merged.shapes,
            "operation_kinds": merged.op_kinds,
            "minimisation_runs": merged.minimise_runs,
            "violations_attributed_to_other_properties": merged.other_property_violations,
            "known_findings_seen": known_hits.len(),
            "components": {
                "real": ["micromap (path dependency on /repo, rebuilt from the working tree, feature verif_hooks on)", "core/std formatting machinery", "serde + bincode 2.0.1 codec (C20 byte-level configuration)", "serde_json codec (C20 text-level configuration: from_slice, from_reader, through serde_json::Value)"],
                "stubs": ["key/value payload types (Eq, Borrow, Clone, Drop, Default, Debug, Display, Serialize, Deserialize)", "closures and predicates", "source iterators", "fmt::Write sink", "token-level Serializer/Deserializer", "global allocator wrapper", "iterator/drain/entry holder"],
            },
            "extra": extra,
        },
        "assumptions": [
            "sampling, not proof: capacities <= 64 and 300 (256 for one C06 configuration), histories <= 24 operations, ten element shapes",
            "native runs detect memory errors through the object ledger, the 0xA5 poison hook, canaries and invariants; real undefined-behaviour detection comes from the separate Miri/ASan batches of the thorough tier",
            "the harness's own unsafe-free bookkeeping is trusted",
        ],
    });
    let ev_path = format!("{root}/evidence/{prop}.json");
    let _ = std::fs::create_dir_all(format!("{root}/evidence"));
    if let Err(e) = std::fs::write(&ev_path, serde_json::to_string_pretty(&ev).unwrap()) {
        eprintln!("harness error: cannot write {ev_path}: {e}");
        harness_errors += 1;
    }
    let _ = std::fs::remove_dir_all(&tmp);
    println!(
        "runs={} base_plans={} events={} faults_fired={} distinct_nontrivial={} wall={:.1}s ({:.0} runs/s)",
        merged.runs,
        merged.bases,
        merged.events,
        merged.faults_fired,
        nontrivial,
        wall,
        merged.runs as f64 / wall.max(0.001)
    );
    for l in &lines {
        println!("{l}");
    }
    if !lines.is_empty() {
        1
    } else if harness_errors > 0 {
        2
    } else {
        println!("OK property={prop}: held on everything explored");
        0
    }
}
