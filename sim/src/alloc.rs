//! The allocator seam (C06).
//!
//! `SimAlloc` wraps the system allocator. While a *window* is armed on the
//! current thread, every allocator entry is counted (and, in deny mode, refused
//! with a null pointer). The simulator arms the window only around calls into
//! micromap made with non-allocating payload shapes; every simulator callback
//! pauses the window for its own duration (ledger bookkeeping allocates and is
//! the harness's own business).

use std::alloc::{GlobalAlloc, Layout, System};
use std::cell::Cell;

pub struct SimAlloc;

thread_local! {
    static ARMED: Cell<bool> = const { Cell::new(false) };
    static DENY: Cell<bool> = const { Cell::new(false) };
    static HITS: Cell<u64> = const { Cell::new(0) };
    static FREES: Cell<u64> = const { Cell::new(0) };
    static LAST_SIZE: Cell<usize> = const { Cell::new(0) };
}

#[inline]
fn armed() -> bool {
    ARMED.try_with(|a| a.get()).unwrap_or(false)
}

#[inline]
fn hit(size: usize) -> bool {
    let _ = HITS.try_with(|h| h.set(h.get() + 1));
    let _ = LAST_SIZE.try_with(|h| h.set(size));
    DENY.try_with(|d| d.get()).unwrap_or(false)
}

unsafe impl GlobalAlloc for SimAlloc {
    unsafe fn alloc(&self, layout: Layout) -> *mut u8 {
        if armed() && hit(layout.size()) {
            return core::ptr::null_mut();
        }
        System.alloc(layout)
    }
    unsafe fn dealloc(&self, ptr: *mut u8, layout: Layout) {
        if armed() {
            let _ = FREES.try_with(|h| h.set(h.get() + 1));
        }
        System.dealloc(ptr, layout)
    }
    unsafe fn alloc_zeroed(&self, layout: Layout) -> *mut u8 {
        if armed() && hit(layout.size()) {
            return core::ptr::null_mut();
        }
        System.alloc_zeroed(layout)
    }
    unsafe fn realloc(&self, ptr: *mut u8, layout: Layout, new_size: usize) -> *mut u8 {
        if armed() && hit(new_size) {
            return core::ptr::null_mut();
        }
        System.realloc(ptr, layout, new_size)
    }
}

/// Arms the window; returns the previous state.
#[inline]
pub fn arm(on: bool) -> bool {
    ARMED.with(|a| a.replace(on))
}

pub fn set_deny(on: bool) {
    DENY.with(|d| d.set(on));
}

/// (allocating entries, freeing entries, size of the last allocating entry)
pub fn take_hits() -> (u64, u64, usize) {
    let h = HITS.with(|h| h.replace(0));
    let f = FREES.with(|h| h.replace(0));
    (h, f, LAST_SIZE.with(|s| s.get()))
}

/// RAII pause of the window, used by every simulator callback.
pub struct Pause(bool);

impl Pause {
    #[inline]
    pub fn new() -> Self {
        Pause(arm(false))
    }
}

impl Drop for Pause {
    #[inline]
    fn drop(&mut self) {
        arm(self.0);
    }
}
