//! Per-property check definitions: generation profile, which verdict rules
//! count for the property, and how the fault / cancellation positions of a
//! sampled history are enumerated.

use crate::env::{Cb, Fault, Viol};
use crate::exec::RunOut;
use crate::gen::{boost, uniform, Kind, Profile};
use crate::plan::{End, Op, Plan};

pub const CLAIMED: [&str; 10] = ["C02", "C03", "C04", "C05", "C06", "C10", "C16", "C17", "C19", "C20"];

pub fn prop_no(p: &str) -> u64 {
    p[1..].parse::<u64>().unwrap_or(0)
}

/// Which properties a violation counts for, given the context it was found in.
pub fn attribute(v: &Viol, lying: bool) -> Vec<&'static str> {
    let ctx = |plain: Vec<&'static str>| -> Vec<&'static str> {
        if v.after_fault {
            vec!["C04"]
        } else if lying {
            vec!["C17"]
        } else {
            plain
        }
    };
    match v.rule.as_str() {
        // a leak is never a C04 violation (the property tolerates leaks): one that shows up in an
        // operation no injected panic interrupted is an ordinary ownership defect
        "no-place" | "not-destroyed-once" => {
            if lying {
                vec!["C17"]
            } else {
                vec!["C02"]
            }
        }
        "use-of-nonlive" | "double-destruction" | "two-places" | "yields-nonlive" | "yields-twice" | "panic-in-final-drop" => ctx(vec!["C02"]),
        "len-vs-iteration" => ctx(vec!["C05"]),
        "unusable-after" => ctx(vec!["C05", "C03"]),
        "capacity-drift" => ctx(vec!["C05", "C03"]),
        "duplicate-key" | "lookup-mismatch" => {
            if v.after_fault {
                vec!["C04"]
            } else if lying {
                vec![]
            } else {
                vec!["C05"]
            }
        }
        "canary" => ctx(vec!["C03", "C02"]),
        "aliasing" => {
            if lying {
                vec!["C17"]
            } else {
                vec![]
            }
        }
        "outside-container" | "allocated" | "needs-std" => {
            if v.after_fault {
                vec![]
            } else {
                vec!["C06"]
            }
        }
        "wrong-yield" | "inexact-length" | "not-fused" | "drain-not-empty" | "drain-not-reusable" => {
            if v.after_fault {
                vec![]
            } else {
                vec!["C10"]
            }
        }
        // the one C10 rule that is evaluated under an injected fault: the destructor of an element still
        // inside a drain panics while the drain is dropped - "no matter how much of the drain was consumed
        // before it was dropped" the container is empty afterwards
        "drain-not-empty-after-panic" => {
            if lying {
                vec![]
            } else {
                vec!["C10"]
            }
        }
        "differs-from-one-by-one" | "pull-log" | "capacity-misjudged" => {
            if v.after_fault || lying {
                vec![]
            } else {
                vec!["C16"]
            }
        }
        "no-panic-on-overflow" | "overflow-swallowed" | "changed-by-rejected-call" | "rejected-not-destroyed-once" | "checked-insert-wrong" | "replace-on-full-failed" => {
            if v.after_fault || lying {
                vec![]
            } else {
                vec!["C03"]
            }
        }
        "wrong-text" | "changed-by-formatting" | "panic-on-sink-error" => {
            if v.after_fault || lying {
                vec![]
            } else {
                vec!["C19"]
            }
        }
        "entry-accounting" | "round-trip" | "changed-by-serialising" => {
            if v.after_fault || lying {
                vec![]
            } else {
                vec!["C20"]
            }
        }
        "nonterminating-op" | "process-crash" => vec!["*"],
        _ => vec![],
    }
}

/// The first violation of a run that counts for `prop`.
pub fn first_for<'a>(prop: &str, out: &'a RunOut, lying: bool) -> Option<&'a Viol> {
    out.viols.iter().find(|v| attribute(v, lying).iter().any(|p| *p == prop || *p == "*"))
}

pub fn profile(prop: &str) -> Profile {
    use Kind::*;
    match prop {
        "C02" => {
            let mut p = Profile::base(boost(uniform(&[]), &[Drain, Consume, SDrain, SConsume, Entry, Insert, SInsert, Relocate], 30));
            p.forget = true;
            p.serde_faults = true;
            p.src_tricks = true;
            p.bad_hints = true;
            p
        }
        "C03" => {
            let mut p = Profile::base(boost(boost(uniform(&[Fmt, FmtIter, WithCap]), &[Fill, Overflow], 60), &[Insert, InsertKv, Checked, Entry, SInsert, FromIter, SFromIter, SExtend, SExtendRef, Transfer, Remove, Retain, Drain, Clone], 25));
            p.max_ops = 16;
            p.src_tricks = true;
            p.bad_hints = true;
            p
        }
        "C04" => {
            let mut p = Profile::base(boost(uniform(&[WithCap, Relocate]), &[Clone, SClone, Retain, SRetain, Clear, SClear, Drain, Consume, FromIter, SFromIter, SExtend, SSub, DropNew, Entry], 25));
            p.max_ops = 12;
            p.src_tricks = true;
            p.bad_hints = true;
            p
        }
        "C05" => {
            let mut p = Profile::base(boost(uniform(&[]), &[Overflow, Fill, WithCap, Disjoint, Lookup, Mutate, Remove, Retain, Entry, SInsert, SRemove], 25));
            p.serde_faults = true;
            p.src_tricks = true;
            p.bad_hints = true;
            p
        }
        "C06" => {
            let mut p = Profile::base(boost(uniform(&[Serde]), &[Relocate, Fmt, FmtIter, SAlg, SDiffRef, Clone, Disjoint, DisjointUnchecked, Entry], 25));
            p.no_heap_shapes = true;
            p.alloc_window = true;
            p.weights.push((BigDisjoint, 6));
            p.weights.push((FmtIrreflexive, 6));
            p
        }
        "C10" => {
            let mut p = Profile::base(boost(uniform(&[Serde, Fmt, FmtIter, Overflow, WithCap]), &[Drain, Consume, SDrain, SConsume], 80));
            p.max_ops = 14;
            p
        }
        "C16" => {
            let mut p = Profile::base(boost(uniform(&[Serde, Fmt, FmtIter, Overflow, WithCap]), &[FromIter, FromArr, SFromIter, SFromArr, SExtend, SExtendRef, Transfer], 80));
            p.max_ops = 10;
            p.src_tricks = true;
            p
        }
        "C17" => {
            let mut p = Profile::base(boost(uniform(&[Serde, Unchecked, DisjointUnchecked, Fmt, FmtIter, WithCap]), &[Disjoint, Entry, SInsert, Retain, SRel, Eq, SEq, Remove, Insert, InsertKv, Checked], 25));
            p.lies = true;
            p.forget = true;
            p.src_tricks = true;
            p.bad_hints = true;
            p
        }
        "C19" => {
            let mut p = Profile::base(boost(uniform(&[Serde, Overflow, WithCap]), &[Fmt, FmtIter, SAlg, SDiffRef], 80));
            let _ = DefaultIter;
            p.max_ops = 12;
            p.sink_faults = true;
            p.weights.push((FmtIrreflexive, 30));
            p
        }
        "C20" => {
            let mut p = Profile::base(boost(uniform(&[Overflow, WithCap, Fmt, FmtIter]), &[Serde], 120));
            p.max_ops = 10;
            p.serde_faults = true;
            p
        }
        _ => Profile::base(uniform(&[])),
    }
}

/// Enumerated variants of a sampled base plan, given its fault-free dry run.
/// `budget` bounds the number of variants per base plan (quick tier); 0 = unbounded.
pub fn variants(prop: &str, base: &Plan, dry: &RunOut, r: &mut crate::env::SplitMix, thorough: bool) -> Vec<Plan> {
    let mut out = Vec::new();
    match prop {
        "C04" => {
            // target operations: every op that makes callbacks; positions: all of them
            let targets: Vec<usize> = (0..base.ops.len()).filter(|i| dry.cb_per_op.get(*i).copied().unwrap_or(0) > 0).collect();
            if targets.is_empty() {
                return out;
            }
            let chosen: Vec<usize> = if thorough {
                targets.clone()
            } else {
                // quick: two random targets, biased towards the later (richer) states
                let a = targets[r.below(targets.len() as u64) as usize];
                let b = targets[targets.len() - 1 - r.below(targets.len().min(3) as u64) as usize];
                if a == b {
                    vec![a]
                } else {
                    vec![a, b]
                }
            };
            for t in chosen {
                // large containers make thousands of callbacks per operation: the first 60 positions there
                let n = dry.cb_per_op[t].min(if base.cfg.n.max(base.cfg.m) >= 100 { 60 } else { 400 });
                for ord in 1..=n {
                    let mut p = base.clone();
                    p.faults = vec![Fault { op: t, ord, kind: None }];
                    out.push(p);
                }
            }
            // a minority of runs carries faults in two or three different operations
            if targets.len() >= 2 && r.chance(1, 3) {
                let mut p = base.clone();
                let k = 2 + r.below(2) as usize;
                let mut used = Vec::new();
                for _ in 0..k {
                    let t = targets[r.below(targets.len() as u64) as usize];
                    if used.contains(&t) {
                        continue;
                    }
                    used.push(t);
                    // kind-relative ordinals stay meaningful even when an earlier fault changed the history
                    let kinds: Vec<usize> = (0..crate::env::NCB).filter(|k| dry.cb_kind_per_op[t][*k] > 0).collect();
                    let kk = kinds[r.below(kinds.len() as u64) as usize];
                    let ord = 1 + r.below(dry.cb_kind_per_op[t][kk] as u64) as u32;
                    p.faults.push(Fault { op: t, ord, kind: Some(cb_from(kk)) });
                }
                out.push(p);
            }
        }
        "C10" | "C02" => {
            // enumerate the cancellation point of every session: j = 0..=len (bounded by capacity)
            out.push(base.clone());
            let cap = base.cfg.n.max(base.cfg.m) as u8;
            let sessions: Vec<usize> = (0..base.ops.len())
                .filter(|i| matches!(base.ops[*i], Op::Drain { .. } | Op::IntoIter { .. } | Op::IntoKeys { .. } | Op::IntoValues { .. } | Op::SDrain { .. } | Op::SIntoIter { .. }))
                .collect();
            let pick: Vec<usize> = if thorough { sessions } else { sessions.into_iter().rev().take(1).collect() };
            // large containers: a handful of cancellation points instead of all of them
            let js: Vec<u8> = if base.cfg.n.max(base.cfg.m) >= 100 { vec![0, 1, 2, 100, 200, 255] } else { (0..=cap).collect() };
            for i in pick {
                for &j in &js {
                    for end in [End::Exhaust, End::Drop, End::Forget] {
                        if end == End::Forget && prop == "C10" {
                            continue;
                        }
                        if end == End::Exhaust && j > 0 {
                            continue;
                        }
                        let mut p = base.clone();
                        set_session(&mut p.ops[i], j, end);
                        if p.ops[i] != base.ops[i] {
                            out.push(p.clone());
                        }
                        // C10: a drain dropped with elements left whose destructor panics inside that drop
                        // (the first, second or third destructor call of the drop, key or value)
                        // (three cancellation points, thorough: every fourth one as well and every session of the history; two destructor positions each)
                        if prop == "C10" && end == End::Drop && matches!(base.ops[i], Op::Drain { .. } | Op::SDrain { .. }) && (j as usize) < base.cfg.n.max(base.cfg.m) && (j == 0 || j == 1 || j == 3 || (thorough && j % 4 == 2)) {
                            let sites: &[(u32, Cb)] = if thorough && j % 2 == 1 { &[(2, Cb::DropK), (1, Cb::DropV)] } else { &[(1, Cb::DropK), (2, Cb::DropV)] };
                            for &(ord, kind) in sites {
                                let mut q = p.clone();
                                q.faults = vec![Fault { op: i, ord, kind: Some(kind) }];
                                out.push(q);
                            }
                        }
                    }
                }
            }
        }
        "C19" => {
            out.push(base.clone());
            // enumerate the failing write of every formatting operation with a healthy sink
            let fmts: Vec<usize> = (0..base.ops.len()).filter(|i| matches!(base.ops[*i], Op::Fmt { .. } | Op::FmtIter { .. })).collect();
            let pick: Vec<usize> = if thorough { fmts } else { fmts.into_iter().rev().take(1).collect() };
            for i in pick {
                let writes = dry.cb_kind_per_op.get(i).map_or(0, |k| k[Cb::Sink as usize]).min(200);
                for w in 1..=writes {
                    let mut p = base.clone();
                    match &mut p.ops[i] {
                        Op::Fmt { sink, .. } | Op::FmtIter { sink, .. } => {
                            sink.fail_at = Some(w);
                            sink.cap = 8192;
                            sink.elem_fail_at = None;
                        }
                        _ => {}
                    }
                    out.push(p);
                }
            }
        }
        _ => out.push(base.clone()),
    }
    out
}

fn set_session(op: &mut Op, j: u8, e: End) {
    match op {
        Op::Drain { take, end, .. } | Op::IntoIter { take, end, .. } | Op::IntoKeys { take, end, .. } | Op::IntoValues { take, end, .. } | Op::SDrain { take, end, .. } | Op::SIntoIter { take, end, .. } => {
            *take = j;
            *end = e;
        }
        _ => {}
    }
}

pub fn cb_from(k: usize) -> Cb {
    [Cb::EqK, Cb::EqQ, Cb::EqV, Cb::CloneK, Cb::CloneV, Cb::DropK, Cb::DropV, Cb::Pred, Cb::Closure, Cb::Dflt, Cb::SrcNext, Cb::SrcHint, Cb::Borrow, Cb::FmtK, Cb::FmtV, Cb::Sink, Cb::Ser, Cb::De][k]
}
