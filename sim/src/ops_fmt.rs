//! Formatting into the caller-supplied sink (C19; also exercised by C06 and C04).

use crate::env::{Injected, Watchdog};
use crate::ops_map::win;
use crate::payload::{SimK, SimV};
use crate::plan::{SinkCfg, Style};
use crate::sink::{tokens, Sink, FK, FV};
use crate::world::{violate, Cx, Snap};
use core::fmt::{self, Write};
use micromap::{Map, Set};
use std::panic::{catch_unwind, resume_unwind, AssertUnwindSafe};

/// Formats `$x` into `$sink` with one of eight format specifications per style; the same macro
/// renders the mirror, so the expectation is "whatever std does for this spec".
macro_rules! fmt_dbg {
    ($sink:expr, $style:expr, $spec:expr, $x:expr) => {
        match ($style == Style::Alt, $spec % 8) {
            (false, 0) => write!($sink, "{:?}", $x),
            (false, 1) => write!($sink, "{:40?}", $x),
            (false, 2) => write!($sink, "{:>40?}", $x),
            (false, 3) => write!($sink, "{:*^40?}", $x),
            (false, 4) => write!($sink, "{:.3?}", $x),
            (false, 5) => write!($sink, "{:+?}", $x),
            (false, 6) => write!($sink, "{:08?}", $x),
            (false, _) => write!($sink, "{:<3?}", $x),
            (true, 0) => write!($sink, "{:#?}", $x),
            (true, 1) => write!($sink, "{:#40?}", $x),
            (true, 2) => write!($sink, "{:>#40?}", $x),
            (true, 3) => write!($sink, "{:*^#40?}", $x),
            (true, 4) => write!($sink, "{:#.3?}", $x),
            (true, 5) => write!($sink, "{:+#?}", $x),
            (true, 6) => write!($sink, "{:#08?}", $x),
            (true, _) => write!($sink, "{:<#3?}", $x),
        }
    };
}
macro_rules! fmt_disp {
    ($sink:expr, $spec:expr, $x:expr) => {
        match $spec % 8 {
            0 => write!($sink, "{}", $x),
            1 => write!($sink, "{:40}", $x),
            2 => write!($sink, "{:>40}", $x),
            3 => write!($sink, "{:*^40}", $x),
            4 => write!($sink, "{:.3}", $x),
            5 => write!($sink, "{:+}", $x),
            6 => write!($sink, "{:08}", $x),
            _ => write!($sink, "{:#}", $x),
        }
    };
}
macro_rules! fmt_with {
    ($sink:expr, $style:expr, $spec:expr, $x:expr) => {
        if $style == Style::Display {
            fmt_disp!($sink, $spec, $x)
        } else {
            fmt_dbg!($sink, $style, $spec, $x)
        }
    };
}

struct MirrorMap<'a>(&'a [(u64, u64)]);
impl fmt::Debug for MirrorMap<'_> {
    fn fmt(&self, f: &mut fmt::Formatter<'_>) -> fmt::Result {
        f.debug_map().entries(self.0.iter().map(|(k, v)| (FK(*k), FV(*v)))).finish()
    }
}
struct MirrorSet<'a>(&'a [(u64, u64)]);
impl fmt::Debug for MirrorSet<'_> {
    fn fmt(&self, f: &mut fmt::Formatter<'_>) -> fmt::Result {
        f.debug_set().entries(self.0.iter().map(|(k, _)| FK(*k))).finish()
    }
}
/// parts: 0 = (k, v) tuples, 1 = keys, 2 = values
struct MirrorList<'a>(&'a [(u64, u64)], u8);
impl fmt::Debug for MirrorList<'_> {
    fn fmt(&self, f: &mut fmt::Formatter<'_>) -> fmt::Result {
        match self.1 {
            0 => f.debug_list().entries(self.0.iter().map(|(k, v)| (FK(*k), FV(*v)))).finish(),
            1 => f.debug_list().entries(self.0.iter().map(|(k, _)| FK(*k))).finish(),
            _ => f.debug_list().entries(self.0.iter().map(|(_, v)| FV(*v))).finish(),
        }
    }
}

fn display_expected(ents: &[(u64, u64)], set: bool) -> String {
    let mut s = String::from("{");
    for (i, (k, v)) in ents.iter().enumerate() {
        if i > 0 {
            s.push_str(", ");
        }
        if set {
            s.push_str(&format!("{}", FK(*k)));
        } else {
            s.push_str(&format!("{}: {}", FK(*k), FV(*v)));
        }
    }
    s.push('}');
    s
}

/// What `Display` may render under a format specification. The statement fixes the literal form
/// `{k: v, k: v}`; it says nothing about width, fill, precision or sign flags, so two readings are
/// accepted: the flags are ignored (or handed to the elements, which ignore them here), or the
/// literal form as a whole is padded / truncated the way `Formatter::pad` does it for a string, or
/// the specification is handed on to every key and value (the payload types honour it).
fn display_accept(ents: &[(u64, u64)], set: bool, spec: u8) -> Vec<String> {
    let lit = display_expected(ents, set);
    let mut v = vec![lit.clone()];
    if spec % 8 != 0 {
        // (b) the literal form padded / truncated as a whole
        let mut padded = String::new();
        let _ = fmt_disp!(padded, spec, lit.as_str());
        if !v.contains(&padded) {
            v.push(padded);
        }
        // (c) the specification handed on to every key and value
        let mut fwd = String::from("{");
        for (i, (k, val)) in ents.iter().enumerate() {
            if i > 0 {
                fwd.push_str(", ");
            }
            let _ = fmt_disp!(fwd, spec, FK(*k));
            if !set {
                fwd.push_str(": ");
                let _ = fmt_disp!(fwd, spec, FV(*val));
            }
        }
        fwd.push('}');
        if !v.contains(&fwd) {
            v.push(fwd);
        }
    }
    v
}

fn ids(s: &Snap) -> Vec<(u64, u64)> {
    s.iter().map(|e| (e.kid, e.vid)).collect()
}

fn finish<K: SimK, V: SimV>(cx: &mut Cx<K, V>, what: &str, r: std::thread::Result<fmt::Result>, sink: &Sink, accept: &[String]) {
    let expected = &accept[0];
    let failed = sink.failed || sink.elem_failed;
    match r {
        Err(p) => {
            if !(p.is::<Injected>() || p.is::<Watchdog>()) && failed {
                violate("panic-on-sink-error", format!("{what}: formatting panicked instead of returning when {} reported an error", if sink.failed { "the sink" } else { "an element's formatter" }));
            }
            resume_unwind(p);
        }
        Ok(res) => {
            cx.dg(res.is_ok() as u64);
            if !failed {
                if res.is_err() {
                    violate("wrong-text", format!("{what}: formatting into a healthy sink reported an error"));
                } else if !accept.iter().any(|e| e == sink.text()) {
                    violate("wrong-text", format!("{what}: rendered {:?} but the entries seen through iteration render as {:?}", sink.text(), expected));
                }
            } else {
                cx.probe(if sink.failed { "sink_failed_midway" } else { "element_formatter_failed_midway" });
                if sink.failed && res.is_ok() {
                    violate("wrong-text", format!("{what}: reported success although the sink rejected a write; the sink holds {:?} instead of {:?}", sink.text(), expected));
                }
            }
        }
    }
}

pub fn fmt_map<K: SimK, V: SimV, const C: usize>(m: &Map<K, V, C>, cx: &mut Cx<K, V>, style: Style, spec: u8, sc: SinkCfg, pre: &Snap) {
    let aw = cx.cfg.alloc_window;
    let mut sink = Sink::new(sc.cap, sc.fail_at);
    if spec % 8 != 0 {
        cx.probe("format_spec_with_flags");
    }
    crate::env::arm_fmt_elem(sc.elem_fail_at);
    let r = catch_unwind(AssertUnwindSafe(|| win!(aw, fmt_with!(sink, style, spec, m))));
    crate::alloc::arm(false);
    sink.elem_failed = crate::env::take_fmt_elem_failed();
    let e = ids(pre);
    let _p = crate::alloc::Pause::new();
    let accept = match style {
        Style::Display => display_accept(&e, false, spec),
        _ => {
            let mut s = String::new();
            let _ = fmt_dbg!(s, style, spec, MirrorMap(&e));
            vec![s]
        }
    };
    finish(cx, "Map formatting", r, &sink, &accept);
}

pub fn fmt_set<K: SimK, V: SimV, const C: usize>(s: &Set<K, C>, cx: &mut Cx<K, V>, style: Style, spec: u8, sc: SinkCfg, pre: &Snap) {
    let aw = cx.cfg.alloc_window;
    let mut sink = Sink::new(sc.cap, sc.fail_at);
    crate::env::arm_fmt_elem(sc.elem_fail_at);
    let r = catch_unwind(AssertUnwindSafe(|| win!(aw, fmt_with!(sink, style, spec, s))));
    crate::alloc::arm(false);
    sink.elem_failed = crate::env::take_fmt_elem_failed();
    let e = ids(pre);
    let _p = crate::alloc::Pause::new();
    let accept = match style {
        Style::Display => display_accept(&e, true, spec),
        _ => {
            let mut t = String::new();
            let _ = fmt_dbg!(t, style, spec, MirrorSet(&e));
            vec![t]
        }
    };
    finish(cx, "Set formatting", r, &sink, &accept);
}

/// Checks the Debug text of an iterator / drain against the identities it has not yet yielded.
/// `parts`: 0 = (k, v) tuples, 1 = keys only, 2 = values only.
pub fn check_iter_text<K: SimK, V: SimV>(cx: &mut Cx<K, V>, what: &str, r: std::thread::Result<fmt::Result>, sink: &Sink, remaining: &[(u64, u64)], parts: u8, style: Style, spec: u8) {
    let _p = crate::alloc::Pause::new();
    if r.is_ok() && !sink.failed && !sink.elem_failed {
        let toks = tokens(sink.text());
        // rebuild the listed entries from the tokens, in order of appearance
        let mut listed: Vec<(u64, u64)> = Vec::new();
        let mut ok = true;
        match parts {
            0 => {
                let mut i = 0;
                while i + 1 < toks.len() {
                    if toks[i].0 != 'k' || toks[i + 1].0 != 'v' {
                        ok = false;
                        break;
                    }
                    listed.push((toks[i].1, toks[i + 1].1));
                    i += 2;
                }
                ok &= toks.len() % 2 == 0;
            }
            1 => {
                for t in &toks {
                    ok &= t.0 == 'k';
                    listed.push((t.1, 0));
                }
            }
            _ => {
                for t in &toks {
                    ok &= t.0 == 'v';
                    listed.push((0, t.1));
                }
            }
        }
        let proj = |e: &(u64, u64)| match parts {
            0 => *e,
            1 => (e.0, 0),
            _ => (0, e.1),
        };
        let mut want: Vec<(u64, u64)> = remaining.iter().map(proj).collect();
        let mut got = listed.clone();
        want.sort_unstable();
        got.sort_unstable();
        if !ok || want != got {
            violate("wrong-text", format!("{what}: Debug lists {:?} but the entries not yet yielded are {want:?}", sink.text()));
            return;
        }
        let mut expected = String::new();
        let _ = fmt_dbg!(expected, style, spec, MirrorList(&listed, parts));
        if expected != sink.text() {
            violate("wrong-text", format!("{what}: Debug renders {:?} instead of the standard list rendering {expected:?}", sink.text()));
            return;
        }
    }
    let failed = sink.failed || sink.elem_failed;
    match r {
        Err(p) => {
            if !(p.is::<Injected>() || p.is::<Watchdog>()) && failed {
                violate("panic-on-sink-error", format!("{what}: formatting panicked instead of returning when {} reported an error", if sink.failed { "the sink" } else { "an element's formatter" }));
            }
            resume_unwind(p);
        }
        Ok(res) => {
            cx.dg(res.is_ok() as u64);
            if !failed && res.is_err() {
                violate("wrong-text", format!("{what}: formatting into a healthy sink reported an error"));
            }
            if failed {
                cx.probe(if sink.failed { "sink_failed_midway" } else { "element_formatter_failed_midway" });
                if sink.failed && res.is_ok() {
                    violate("wrong-text", format!("{what}: reported success although the sink rejected a write"));
                }
            }
        }
    }
}

/// Debug of a map iterator after `take` items. `which`: 0 IntoIter, 1 IntoKeys, 2 IntoValues,
/// 3 Drain, 4 Iter, 5 IterMut, 6 Keys, 7 Values, 8 ValuesMut.
pub fn fmt_iter<K: SimK, V: SimV, const C: usize>(m: &mut Map<K, V, C>, cx: &mut Cx<K, V>, which: u8, take: u8, alt: bool, spec: u8, sc: SinkCfg, pre: &Snap) {
    // a precision would truncate the identity tokens the listing is checked by: use the plain form then
    let spec = if spec % 8 == 4 { 0 } else { spec };
    let style = if alt { Style::Alt } else { Style::Debug };
    let aw = cx.cfg.alloc_window;
    let mut sink = Sink::new(sc.cap, sc.fail_at);
    let all = ids(pre);
    let take = (take as usize).min(pre.len());
    if take > 0 && take < pre.len() {
        cx.probe("iterator_debug_partly_consumed");
    }
    macro_rules! render {
        ($it:expr) => {{
            crate::env::arm_fmt_elem(sc.elem_fail_at);
            let r = catch_unwind(AssertUnwindSafe(|| win!(aw, fmt_dbg!(sink, style, spec, $it))));
            sink.elem_failed = crate::env::take_fmt_elem_failed();
            r
        }};
    }
    // remaining = all entries whose key (or value) was not handed back yet
    let rest = |yk: &Vec<u64>, yv: &Vec<u64>, by_val: bool| -> Vec<(u64, u64)> {
        if K::ANON && V::ANON {
            return all.iter().take(all.len() - yk.len().max(yv.len()).min(all.len())).cloned().collect();
        }
        all.iter().filter(|(k, v)| if by_val { !yv.contains(v) } else { !yk.contains(k) }).cloned().collect()
    };
    let by_val = K::ANON;
    let (mut yk, mut yv) = (Vec::new(), Vec::new());
    match which {
        0 => {
            let owned = std::mem::replace(m, Map::new());
            let mut it = win!(aw, owned.into_iter());
            for _ in 0..take {
                if let Some((k, v)) = win!(aw, it.next()) {
                    yk.push(k.peek().id);
                    yv.push(v.peek().id);
                    cx.ret_k("into_iter", k);
                    cx.ret_v("into_iter", v);
                }
            }
            let r = render!(it);
            crate::alloc::arm(false);
            let rem = rest(&yk, &yv, by_val);
            if it.len() != rem.len() {
                violate("changed-by-formatting", format!("IntoIter: {} items left after Debug, {} before", it.len(), rem.len()));
            }
            check_iter_text(cx, "IntoIter", r, &sink, &rem, 0, style, spec);
            win!(aw, drop(it));
        }
        1 => {
            let owned = std::mem::replace(m, Map::new());
            let mut it = win!(aw, owned.into_keys());
            for _ in 0..take {
                if let Some(k) = win!(aw, it.next()) {
                    yk.push(k.peek().id);
                    cx.ret_k("into_keys", k);
                }
            }
            let r = render!(it);
            crate::alloc::arm(false);
            let rem: Vec<(u64, u64)> = if K::ANON { all.iter().skip(0).take(all.len() - yk.len()).cloned().collect() } else { rest(&yk, &yv, false) };
            check_iter_text(cx, "IntoKeys", r, &sink, &rem, 1, style, spec);
            win!(aw, drop(it));
        }
        2 => {
            let owned = std::mem::replace(m, Map::new());
            let mut it = win!(aw, owned.into_values());
            for _ in 0..take {
                if let Some(v) = win!(aw, it.next()) {
                    yv.push(v.peek().id);
                    cx.ret_v("into_values", v);
                }
            }
            let r = render!(it);
            crate::alloc::arm(false);
            let rem: Vec<(u64, u64)> = if V::ANON { all.iter().take(all.len() - yv.len()).cloned().collect() } else { rest(&yk, &yv, true) };
            check_iter_text(cx, "IntoValues", r, &sink, &rem, 2, style, spec);
            win!(aw, drop(it));
        }
        3 => {
            let mut it = win!(aw, m.drain());
            for _ in 0..take {
                if let Some((k, v)) = win!(aw, it.next()) {
                    yk.push(k.peek().id);
                    yv.push(v.peek().id);
                    cx.ret_k("drain", k);
                    cx.ret_v("drain", v);
                }
            }
            let r = render!(it);
            crate::alloc::arm(false);
            let rem = rest(&yk, &yv, by_val);
            if it.len() != rem.len() {
                violate("changed-by-formatting", format!("Drain: {} items left after Debug, {} before", it.len(), rem.len()));
            }
            check_iter_text(cx, "Drain", r, &sink, &rem, 0, style, spec);
            win!(aw, drop(it));
        }
        4 => {
            let mut it = win!(aw, m.iter());
            for _ in 0..take {
                if let Some((k, v)) = win!(aw, it.next()) {
                    yk.push(k.peek().id);
                    yv.push(v.peek().id);
                }
            }
            let r = render!(it);
            crate::alloc::arm(false);
            let rem = rest(&yk, &yv, by_val);
            if it.len() != rem.len() {
                violate("changed-by-formatting", format!("Iter: {} items left after Debug, {} before", it.len(), rem.len()));
            }
            check_iter_text(cx, "Iter", r, &sink, &rem, 0, style, spec);
        }
        5 => {
            let mut it = win!(aw, m.iter_mut());
            for _ in 0..take {
                if let Some((k, v)) = win!(aw, it.next()) {
                    yk.push(k.peek().id);
                    yv.push(v.peek().id);
                }
            }
            let r = render!(it);
            crate::alloc::arm(false);
            let rem = rest(&yk, &yv, by_val);
            if it.len() != rem.len() {
                violate("changed-by-formatting", format!("IterMut: {} items left after Debug, {} before", it.len(), rem.len()));
            }
            check_iter_text(cx, "IterMut", r, &sink, &rem, 0, style, spec);
        }
        6 => {
            let mut it = win!(aw, m.keys());
            for _ in 0..take {
                if let Some(k) = win!(aw, it.next()) {
                    yk.push(k.peek().id);
                }
            }
            let r = render!(it);
            crate::alloc::arm(false);
            let rem: Vec<(u64, u64)> = if K::ANON { all.iter().take(all.len() - yk.len()).cloned().collect() } else { rest(&yk, &yv, false) };
            if it.len() != rem.len() {
                violate("changed-by-formatting", format!("Keys: {} items left after Debug, {} before", it.len(), rem.len()));
            }
            check_iter_text(cx, "Keys", r, &sink, &rem, 1, style, spec);
        }
        7 => {
            let mut it = win!(aw, m.values());
            for _ in 0..take {
                if let Some(v) = win!(aw, it.next()) {
                    yv.push(v.peek().id);
                }
            }
            let r = render!(it);
            crate::alloc::arm(false);
            let rem: Vec<(u64, u64)> = if V::ANON { all.iter().take(all.len() - yv.len()).cloned().collect() } else { rest(&yk, &yv, true) };
            if it.len() != rem.len() {
                violate("changed-by-formatting", format!("Values: {} items left after Debug, {} before", it.len(), rem.len()));
            }
            check_iter_text(cx, "Values", r, &sink, &rem, 2, style, spec);
        }
        _ => {
            let mut it = win!(aw, m.values_mut());
            for _ in 0..take {
                if let Some(v) = win!(aw, it.next()) {
                    yv.push(v.peek().id);
                }
            }
            let r = render!(it);
            crate::alloc::arm(false);
            let rem: Vec<(u64, u64)> = if V::ANON { all.iter().take(all.len() - yv.len()).cloned().collect() } else { rest(&yk, &yv, true) };
            if it.len() != rem.len() {
                violate("changed-by-formatting", format!("ValuesMut: {} items left after Debug, {} before", it.len(), rem.len()));
            }
            check_iter_text(cx, "ValuesMut", r, &sink, &rem, 2, style, spec);
        }
    }
}
