//! Operations on one `Map`.

use crate::env::{self, Cb};
use crate::exec::OpOut;
use crate::ops_iter::consume;
use crate::payload::{Class, SimK, SimV};
use crate::plan::{CloneKeep, End, EntryAct, Form, IterKind, Op, T};
use crate::world::{has_class, snap_map, violate, Cx, Snap};
use core::borrow::Borrow;
use micromap::{Entry, Map};

/// Evaluates the expression with the allocator window armed (when this run watches the
/// allocator). A panic leaves the window armed; `World::step` disarms it.
macro_rules! win {
    ($aw:expr, $e:expr) => {{
        let __prev = if $aw { Some(crate::alloc::arm(true)) } else { None };
        let __r = $e;
        if let Some(p) = __prev {
            crate::alloc::arm(p);
        }
        __r
    }};
}
pub(crate) use win;

pub fn range_of<X>(x: &X) -> (usize, usize) {
    (x as *const X as usize, std::mem::size_of_val(x))
}

/// Runs `$body` with `$q` bound to the lookup argument in the requested form.
macro_rules! with_q {
    ($cx:ident, $c:expr, $f:expr, |$q:ident| $body:expr) => {
        match $f {
            Form::Own => {
                let probe = $cx.mk_k($c);
                let r = {
                    let $q = &probe;
                    $body
                };
                $cx.pocket_k.push(probe);
                r
            }
            Form::Bor => {
                let cl = Class($c);
                let $q = &cl;
                $body
            }
        }
    };
}
pub(crate) use with_q;

/// Checks shared by all consuming-iterator / drain sessions (C10), over identities only.
pub struct Session<'a> {
    pub what: &'static str,
    pub s: &'a Snap,
    /// which parts are yielded: (keys, values)
    pub parts: (bool, bool),
    pub yielded: Vec<(u64, u64)>,
    pub taken: usize,
    pub saw_none: bool,
}

impl<'a> Session<'a> {
    pub fn new(what: &'static str, s: &'a Snap, parts: (bool, bool)) -> Self {
        Session { what, s, parts, yielded: Vec::new(), taken: 0, saw_none: false }
    }
    pub fn before_step(&self, len: usize, hint: (usize, Option<usize>)) {
        let want = self.s.len().saturating_sub(self.taken);
        if self.saw_none {
            return;
        }
        if len != want || hint != (want, Some(want)) {
            violate("inexact-length", format!("{}: before step {} len()={len}, size_hint()={hint:?}, but {want} of {} entries are still to come", self.what, self.taken, self.s.len()));
        }
    }
    pub fn got(&mut self, kid: u64, vid: u64, anon: (bool, bool)) {
        if self.saw_none {
            violate("not-fused", format!("{}: an item after the end", self.what));
        }
        self.taken += 1;
        let k_ok = !self.parts.0 || anon.0 || self.s.iter().any(|e| e.kid == kid);
        let v_ok = !self.parts.1 || anon.1 || self.s.iter().any(|e| e.vid == vid);
        let pair_ok = !(self.parts.0 && self.parts.1) || anon.0 || anon.1 || self.s.iter().any(|e| e.kid == kid && e.vid == vid);
        if !k_ok || !v_ok || !pair_ok {
            violate("wrong-yield", format!("{}: yielded (key #{kid}, value #{vid}) which is not an entry the container held", self.what));
        }
        let dup = self.yielded.iter().any(|(a, b)| (self.parts.0 && !anon.0 && *a == kid) || (self.parts.1 && !anon.1 && *b == vid));
        if dup {
            violate("wrong-yield", format!("{}: yielded (key #{kid}, value #{vid}) twice", self.what));
        }
        if self.taken > self.s.len() {
            violate("wrong-yield", format!("{}: yielded more items than the {} entries the container held", self.what, self.s.len()));
        }
        self.yielded.push((kid, vid));
    }
    pub fn none(&mut self) {
        if !self.saw_none && self.taken != self.s.len() {
            violate("wrong-yield", format!("{}: ended after {} of {} entries", self.what, self.taken, self.s.len()));
        }
        self.saw_none = true;
    }
    /// identities still inside the holder; `anon` tells which parts carry no identity
    pub fn remaining(&self, anon: (bool, bool)) -> Vec<(u64, u64)> {
        let live = |id: u64| env::with(|e| id != 0 && (id as usize) <= e.objs.len() && e.objs[id as usize - 1].live());
        self.s
            .iter()
            .filter(|e| {
                if self.parts.0 && !anon.0 {
                    !self.yielded.iter().any(|(a, _)| *a == e.kid)
                } else if self.parts.1 && !anon.1 {
                    !self.yielded.iter().any(|(_, b)| *b == e.vid)
                } else if !anon.0 {
                    // the yielded part carries no identity: a pair is still inside iff its key was not consumed
                    live(e.kid)
                } else if !anon.1 {
                    live(e.vid)
                } else {
                    false
                }
            })
            .map(|e| (e.kid, e.vid))
            .collect()
    }
}

/// The order in which an observationally identical twin of `m` (a clone whose `iter()` shows the
/// same entries in the same order) hands out its entries when it is stepped with `next()` alone,
/// as (key class, value payload). `kind`: 0 into_iter, 1 into_keys, 2 into_values, 3 drain.
/// `None` when no such twin can be had; then nothing is compared.
pub fn twin_order_map<K: SimK, V: SimV, const C: usize>(m: &Map<K, V, C>, pre: &Snap, kind: u8) -> Option<Vec<(u32, u64)>> {
    crate::world::observing(|| {
        std::panic::catch_unwind(std::panic::AssertUnwindSafe(|| {
            let mut twin = m.clone();
            let ts = snap_map(&twin);
            if ts.len() != pre.len() || ts.iter().zip(pre.iter()).any(|(a, b)| a.kclass != b.kclass || a.vpay != b.vpay) {
                return None;
            }
            let v: Vec<(u32, u64)> = match kind {
                0 => twin.into_iter().map(|(k, v)| (k.peek().class, v.payload())).collect(),
                1 => twin.into_keys().map(|k| (k.peek().class, 0)).collect(),
                2 => twin.into_values().map(|v| (0, v.payload())).collect(),
                _ => {
                    let v = twin.drain().map(|(k, v)| (k.peek().class, v.payload())).collect();
                    drop(twin);
                    v
                }
            };
            Some(v)
        }))
        .ok()
        .flatten()
    })
}

pub fn forget_remaining<K: SimK, V: SimV>(cx: &mut Cx<K, V>, s: &Snap, sess: &Session<'_>, is_map: bool) {
    let rem = s.len().saturating_sub(sess.taken) as i64;
    if K::ANON {
        cx.anon_forgotten[0] += rem;
    }
    if is_map && V::ANON {
        cx.anon_forgotten[1] += rem;
    }
    for (k, v) in sess.remaining((K::ANON, !is_map || V::ANON)) {
        if !K::ANON {
            cx.forgotten.push(k);
        }
        if is_map && !V::ANON {
            cx.forgotten.push(v);
        }
    }
    if rem > 0 {
        cx.probe("holder_forgotten_with_remaining");
    }
}

/// Lets go of the rest of a borrowing iterator through one of the provided `Iterator` methods.
/// `$see` is called with every item that comes back.
macro_rules! finish_iter {
    ($it:expr, $fin:expr, $k:expr, $cx:expr, $aw:expr, |$x:ident| $see:expr) => {{
        let mut it = $it;
        let left = it.len();
        match $fin {
            1 => {
                let n = win!($aw, it.count());
                $cx.dg(n as u64);
            }
            2 => {
                if let Some($x) = win!($aw, it.last()) {
                    $see;
                }
            }
            3 => {
                if let Some($x) = win!($aw, it.nth($k)) {
                    $see;
                }
                $cx.dg(it.len() as u64);
                if it.len() > left {
                    violate("inexact-length", "a borrowing iterator grew while stepping".into());
                }
            }
            4 => {
                let n = win!($aw, it.fold(0usize, |acc, $x| {
                    env::touch(Cb::Closure, None, None);
                    let _p = crate::alloc::Pause::new();
                    $see;
                    acc + 1
                }));
                $cx.dg(n as u64);
            }
            5 => {
                let mut c = 0usize;
                if let Some($x) = win!($aw, it.find(|_| {
                    env::touch(Cb::Pred, None, None);
                    c += 1;
                    c > $k
                })) {
                    $see;
                }
            }
            6 => {
                let h = it.size_hint();
                $cx.dg(h.0 as u64 ^ (h.1.unwrap_or(999) as u64) << 8 ^ (it.len() as u64) << 16);
            }
            _ => {
                $cx.dg(it.len() as u64);
            }
        }
    }};
}
pub(crate) use finish_iter;

pub fn map_op<K: SimK, V: SimV, const C: usize>(m: &mut Map<K, V, C>, cx: &mut Cx<K, V>, op: &Op, t: T, pre: &Snap, out: &mut OpOut) {
    let aw = cx.cfg.alloc_window;
    let (base, size) = range_of(m);
    let full = pre.len() == C;
    match op {
        Op::Insert { c, .. } | Op::InsertKv { c, .. } | Op::Checked { c, .. } | Op::Unchecked { c, .. } => {
            let present = has_class(pre, *c, K::ANON);
            if matches!(op, Op::Unchecked { .. }) && full && !present {
                // outside the contract of insert_unchecked: not executed
                cx.probe("unchecked_skipped_outside_contract");
                return;
            }
            let k = cx.mk_k(*c);
            let v = cx.mk_v();
            out.new_val = v.peek().id;
            out.adds = Some((false, t, *c));
            if full && !present {
                cx.probe("insert_on_full_absent");
            }
            if full && present {
                cx.probe("replace_on_full");
            }
            match op {
                Op::Insert { .. } => {
                    if let Some(old) = win!(aw, m.insert(k, v)) {
                        cx.ret_v("insert", old);
                    }
                }
                Op::InsertKv { .. } => {
                    if let Some((ok, ov)) = win!(aw, m.insert_key_value(k, v)) {
                        cx.ret_k("insert_key_value", ok);
                        cx.ret_v("insert_key_value", ov);
                    }
                }
                Op::Checked { .. } => {
                    let r = win!(aw, m.checked_insert(k, v));
                    out.checked_ret = Some(r.is_some());
                    if let Some(Some(old)) = r {
                        cx.ret_v("checked_insert", old);
                    }
                }
                _ => {
                    cx.probe("insert_unchecked_within_contract");
                    if let Some(old) = win!(aw, unsafe { m.insert_unchecked(k, v) }) {
                        cx.ret_v("insert_unchecked", old);
                    }
                }
            }
        }
        Op::Get { c, f, .. }
        | Op::GetMut { c, f, .. }
        | Op::GetKv { c, f, .. }
        | Op::Contains { c, f, .. }
        | Op::Index { c, f, .. }
        | Op::IndexMut { c, f, .. }
        | Op::Remove { c, f, .. }
        | Op::RemoveEntry { c, f, .. } => {
            if matches!(op, Op::Index { .. } | Op::IndexMut { .. }) && !has_class(pre, *c, K::ANON) {
                cx.probe("index_missing_key");
            }
            if matches!(op, Op::Remove { .. } | Op::RemoveEntry { .. }) && pre.len() > 1 && pre.last().map(|e| e.kclass) != Some(*c) && has_class(pre, *c, K::ANON) {
                cx.probe("remove_not_last");
            }
            match f {
                Form::Own => {
                    let probe = cx.mk_k(*c);
                    map_lookup::<K, V, C, K>(m, cx, op, &probe);
                    cx.pocket_k.push(probe);
                }
                Form::Bor => map_lookup::<K, V, C, Class>(m, cx, op, &Class(*c)),
            }
        }
        Op::Retain { keep, mutate, .. } => {
            let mut i = 0u32;
            let keep = *keep;
            let mutate = *mutate;
            let mut removed_mid = false;
            let n = pre.len() as u32;
            win!(aw, {
                m.retain(|k, v| {
                    let (pk, pv) = (k.peek(), v.peek());
                    env::touch(Cb::Pred, Some(&pk), Some(&pv));
                    {
                        // the references the predicate is handed are element references too
                        let _p = crate::alloc::Pause::new();
                        cx.inside("retain predicate (key)", k as *const K as usize, std::mem::size_of::<K>(), std::mem::align_of::<K>(), base, size);
                        cx.inside("retain predicate (value)", v as *const V as usize, std::mem::size_of::<V>(), std::mem::align_of::<V>(), base, size);
                    }
                    let r = (keep >> (i % 32)) & 1 == 1;
                    if !r && i + 1 < n {
                        removed_mid = true;
                    }
                    if mutate {
                        v.set_payload(v.payload().wrapping_add(7));
                    }
                    i += 1;
                    r
                })
            });
            if removed_mid {
                cx.probe("retain_removed_not_last");
            }
            cx.dg(i as u64);
        }
        Op::Clear { .. } => {
            win!(aw, m.clear());
        }
        Op::Drain { take, end, .. } => {
            let mut sess = Session::new("drain", pre, (true, true));
            let order = twin_order_map(m, pre, 3);
            let mut drop_panic = None;
            {
                let d = win!(aw, m.drain());
                let rest = consume(d, cx, &mut sess, *take, *end, |x: &(K, V)| (x.0.peek().id, x.1.peek().id), |cx, x| {
                    cx.ret_k("drain", x.0);
                    cx.ret_v("drain", x.1);
                }, (K::ANON, V::ANON), order.as_deref().map(|o| (o, &(|x: &(K, V)| (x.0.peek().class, x.1.payload())) as &dyn Fn(&(K, V)) -> (u32, u64))));
                if let Some(d) = rest {
                    if *end == End::Forget {
                        forget_remaining(cx, pre, &sess, true);
                        std::mem::forget(d);
                    } else {
                        if sess.taken < pre.len() {
                            cx.probe("drain_dropped_with_remaining");
                        }
                        // the drain is dropped "no matter how": when the destructor of an element that was
                        // still in it panics, the drain is gone all the same and the map must be empty
                        if let Err(p) = std::panic::catch_unwind(std::panic::AssertUnwindSafe(move || win!(aw, drop(d)))) {
                            drop_panic = Some(p);
                        }
                    }
                }
            }
            if let Some(p) = drop_panic {
                crate::alloc::arm(false);
                cx.probe("drain_drop_panicked");
                let left = crate::world::observing(|| std::panic::catch_unwind(std::panic::AssertUnwindSafe(|| snap_map(m).len())).unwrap_or(usize::MAX));
                if m.len() != 0 || left != 0 || !m.is_empty() {
                    violate("drain-not-empty-after-panic", format!("drain() (taken {} of {}) was dropped and an element destructor panicked inside that drop: afterwards len()={} and iteration yields {} entries", sess.taken, pre.len(), m.len(), left));
                }
                std::panic::resume_unwind(p);
            }
            // drain always empties
            let left = snap_map(m);
            if m.len() != 0 || !left.is_empty() || !m.is_empty() {
                violate("drain-not-empty", format!("after drain() (taken {} of {}, end {:?}) len()={} and iteration yields {} entries", sess.taken, pre.len(), end, m.len(), left.len()));
            }
            // ... and leaves the container fully reusable: refill it to capacity, look everything up,
            // empty it again. A freshly made container of the same type is the control: only what the
            // drained one cannot do although a fresh one can is held against drain().
            if *end != End::Forget && !cx.lying {
                let refill = |m: &mut Map<K, V, C>| -> bool {
                    std::panic::catch_unwind(std::panic::AssertUnwindSafe(|| {
                        let want = if K::ANON { C.min(1) } else { C };
                        let mut good = true;
                        for i in 0..want {
                            m.insert(K::make(50_000 + i as u32, 0), V::make(60_000 + i as u64, 0));
                        }
                        good &= m.len() == want && m.iter().count() == want;
                        for i in 0..want {
                            let q = K::make(50_000 + i as u32, 0);
                            good &= V::ANON || m.get::<K>(&q).map(|v| v.payload()) == Some(60_000 + i as u64);
                            good &= m.contains_key::<K>(&q);
                        }
                        m.clear();
                        good && m.is_empty()
                    }))
                    .unwrap_or(false)
                };
                let ok = crate::world::observing(|| refill(m) || !refill(&mut Map::new()));
                if !ok {
                    violate("drain-not-reusable", format!("after drain() (taken {} of {}, end {:?}) the map cannot be refilled to its capacity {C} and queried, although a fresh map can", sess.taken, pre.len(), end));
                }
            }
        }
        Op::IntoIter { take, end, .. } => {
            let mut sess = Session::new("into_iter", pre, (true, true));
            let order = twin_order_map(m, pre, 0);
            let owned = std::mem::replace(m, Map::new());
            let it = win!(aw, owned.into_iter());
            let rest = consume(it, cx, &mut sess, *take, *end, |x: &(K, V)| (x.0.peek().id, x.1.peek().id), |cx, x| {
                cx.ret_k("into_iter", x.0);
                cx.ret_v("into_iter", x.1);
            }, (K::ANON, V::ANON), order.as_deref().map(|o| (o, &(|x: &(K, V)| (x.0.peek().class, x.1.payload())) as &dyn Fn(&(K, V)) -> (u32, u64))));
            if let Some(it) = rest {
                if *end == End::Forget {
                    forget_remaining(cx, pre, &sess, true);
                    std::mem::forget(it);
                } else {
                    if sess.taken < pre.len() {
                        cx.probe("into_iter_dropped_with_remaining");
                    }
                    win!(aw, drop(it));
                }
            }
        }
        Op::IntoKeys { take, end, .. } => {
            let mut sess = Session::new("into_keys", pre, (true, false));
            let order = twin_order_map(m, pre, 1);
            let owned = std::mem::replace(m, Map::new());
            let it = win!(aw, owned.into_keys());
            let rest = consume(it, cx, &mut sess, *take, *end, |x: &K| (x.peek().id, 0), |cx, x| cx.ret_k("into_keys", x), (K::ANON, V::ANON), order.as_deref().map(|o| (o, &(|x: &K| (x.peek().class, 0u64)) as &dyn Fn(&K) -> (u32, u64))));
            if let Some(it) = rest {
                if *end == End::Forget {
                    forget_remaining(cx, pre, &sess, true);
                    std::mem::forget(it);
                } else {
                    win!(aw, drop(it));
                }
            }
        }
        Op::IntoValues { take, end, .. } => {
            let mut sess = Session::new("into_values", pre, (false, true));
            let order = twin_order_map(m, pre, 2);
            let owned = std::mem::replace(m, Map::new());
            let it = win!(aw, owned.into_values());
            let rest = consume(it, cx, &mut sess, *take, *end, |x: &V| (0, x.peek().id), |cx, x| cx.ret_v("into_values", x), (K::ANON, V::ANON), order.as_deref().map(|o| (o, &(|x: &V| (0u32, x.payload())) as &dyn Fn(&V) -> (u32, u64))));
            if let Some(it) = rest {
                if *end == End::Forget {
                    forget_remaining(cx, pre, &sess, true);
                    std::mem::forget(it);
                } else {
                    win!(aw, drop(it));
                }
            }
        }
        Op::Iter { kind, take, clone_at, fin, .. } => {
            let take = *take as usize;
            let fin = *fin;
            cx.tagctr += 1;
            let np = 7000 + cx.tagctr as u64 * 32;
            match kind {
                IterKind::Iter | IterKind::RefIntoIter => {
                    let mut it = if *kind == IterKind::Iter { win!(aw, m.iter()) } else { win!(aw, (&*m).into_iter()) };
                    let mut j = 0;
                    while j < take {
                        if Some(j as u8) == *clone_at {
                            let c2 = it.clone();
                            let cnt = win!(aw, c2.count());
                            cx.dg(cnt as u64);
                        }
                        match win!(aw, it.next()) {
                            Some((k, v)) => {
                                cx.see_k("iter", k, base, size);
                                cx.see_v("iter", v, base, size);
                            }
                            None => break,
                        }
                        j += 1;
                    }
                    finish_iter!(it, fin, take, cx, aw, |x| { cx.see_k("iter", x.0, base, size); cx.see_v("iter", x.1, base, size); });
                }
                IterKind::IterMut | IterKind::MutIntoIter => {
                    let mut it = if *kind == IterKind::IterMut { win!(aw, m.iter_mut()) } else { win!(aw, (&mut *m).into_iter()) };
                    let mut j = 0;
                    while j < take {
                        match win!(aw, it.next()) {
                            Some((k, v)) => {
                                cx.see_k("iter_mut", k, base, size);
                                cx.see_v("iter_mut", v, base, size);
                                v.set_payload(np + j as u64);
                            }
                            None => break,
                        }
                        j += 1;
                    }
                    finish_iter!(it, fin, take, cx, aw, |x| { cx.see_k("iter_mut", x.0, base, size); cx.see_v("iter_mut", x.1, base, size); x.1.set_payload(np + 77); });
                }
                IterKind::Keys => {
                    let mut it = win!(aw, m.keys());
                    let mut j = 0;
                    while j < take {
                        if Some(j as u8) == *clone_at {
                            let c2 = it.clone();
                            cx.dg(win!(aw, c2.count()) as u64);
                        }
                        match win!(aw, it.next()) {
                            Some(k) => {
                                cx.see_k("keys", k, base, size);
                            }
                            None => break,
                        }
                        j += 1;
                    }
                    finish_iter!(it, fin, take, cx, aw, |x| { cx.see_k("keys", x, base, size); });
                }
                IterKind::Values => {
                    let mut it = win!(aw, m.values());
                    let mut j = 0;
                    while j < take {
                        if Some(j as u8) == *clone_at {
                            let c2 = it.clone();
                            cx.dg(win!(aw, c2.count()) as u64);
                        }
                        match win!(aw, it.next()) {
                            Some(v) => {
                                cx.see_v("values", v, base, size);
                            }
                            None => break,
                        }
                        j += 1;
                    }
                    finish_iter!(it, fin, take, cx, aw, |x| { cx.see_v("values", x, base, size); });
                }
                IterKind::ValuesMut => {
                    let mut it = win!(aw, m.values_mut());
                    let mut j = 0;
                    while j < take {
                        match win!(aw, it.next()) {
                            Some(v) => {
                                cx.see_v("values_mut", v, base, size);
                                v.set_payload(np + j as u64);
                            }
                            None => break,
                        }
                        j += 1;
                    }
                    finish_iter!(it, fin, take, cx, aw, |x| { cx.see_v("values_mut", x, base, size); x.set_payload(np + 78); });
                }
            }
        }
        Op::CloneMap { keep, .. } => {
            if !pre.is_empty() {
                cx.probe("clone_nonempty");
            }
            let c2 = win!(aw, m.clone());
            // the copy is a container in its own right
            crate::world::observing(|| crate::world::wf_map("clone of map", &c2, cx.lying));
            let cs = snap_map(&c2);
            if cs.len() != pre.len() {
                cx.dg(0xC10E);
            }
            match keep {
                CloneKeep::DropClone => win!(aw, drop(c2)),
                CloneKeep::KeepClone => {
                    let old = std::mem::replace(m, c2);
                    win!(aw, drop(old));
                }
                CloneKeep::CloneFrom(prefill) => {
                    // the destination is a container of the same type that already holds entries
                    cx.probe("clone_from_into_nonempty");
                    win!(aw, drop(c2));
                    let mut dst: Map<K, V, C> = Map::new();
                    for i in 0..(*prefill as usize).min(C) {
                        // the destination's keys overlap the source's, in the opposite slot order
                        let c = if i < pre.len() && i % 3 != 2 { pre[pre.len() - 1 - i].kclass } else { 100 + i as u32 };
                        let k = cx.mk_k(c);
                        let v = cx.mk_v();
                        if let Some(old) = win!(aw, dst.insert(k, v)) {
                            cx.ret_v("insert", old);
                        }
                    }
                    // park it in the map's place while clone_from runs, so that a panic leaves both
                    // containers where the standing checks (and the final drop) can see them
                    let src = std::mem::replace(m, dst);
                    let r = std::panic::catch_unwind(std::panic::AssertUnwindSafe(|| win!(aw, m.clone_from(&src))));
                    crate::world::observing(|| crate::world::wf_map("source of clone_from", &src, cx.lying));
                    match r {
                        Ok(()) => win!(aw, drop(src)),
                        Err(p) => {
                            // the source survives a failed clone_from untouched; drop it outside the faulted region
                            crate::world::observing(|| drop(src));
                            std::panic::resume_unwind(p);
                        }
                    }
                }
            }
        }
        Op::Entry { c, act, .. } => entry_op(m, cx, *c, *act, t, pre, out, base, size),
        Op::Disjoint { cs, f, .. } => match cs.len() {
            0 => disjoint::<K, V, C, 0>(m, cx, cs, *f, pre, base, size, false),
            1 => disjoint::<K, V, C, 1>(m, cx, cs, *f, pre, base, size, false),
            2 => disjoint::<K, V, C, 2>(m, cx, cs, *f, pre, base, size, false),
            3 => disjoint::<K, V, C, 3>(m, cx, cs, *f, pre, base, size, false),
            _ => disjoint::<K, V, C, 4>(m, cx, cs, *f, pre, base, size, false),
        },
        Op::DisjointUnchecked { cs, f, .. } => {
            // the contract (pairwise different keys) can only be promised under a truthful `==`,
            // and never for more than one zero-sized key (all of them are equal)
            let mut distinct = true;
            for i in 0..cs.len() {
                for j in 0..i {
                    distinct &= cs[i] != cs[j];
                }
            }
            if cx.lying || !distinct || (K::ANON && cs.len() > 1) {
                cx.probe("disjoint_unchecked_skipped_outside_contract");
                return;
            }
            cx.probe("disjoint_unchecked_within_contract");
            match cs.len() {
                0 => disjoint::<K, V, C, 0>(m, cx, cs, *f, pre, base, size, true),
                1 => disjoint::<K, V, C, 1>(m, cx, cs, *f, pre, base, size, true),
                2 => disjoint::<K, V, C, 2>(m, cx, cs, *f, pre, base, size, true),
                3 => disjoint::<K, V, C, 3>(m, cx, cs, *f, pre, base, size, true),
                _ => disjoint::<K, V, C, 4>(m, cx, cs, *f, pre, base, size, true),
            }
        }
        Op::DefaultIter { which, .. } => default_iter::<K, V, C>(cx, *which),
        Op::Fill { .. } => {
            let mut c = 0u32;
            let mut guard = 0;
            while m.len() < C && guard < 4 * C + 8 {
                guard += 1;
                if K::ANON {
                    if !m.is_empty() {
                        break;
                    }
                } else {
                    while snap_map(m).iter().any(|e| e.kclass == c) {
                        c += 1;
                    }
                }
                let k = cx.mk_k(c);
                let v = cx.mk_v();
                if let Some(old) = win!(aw, m.insert(k, v)) {
                    cx.ret_v("insert", old);
                }
                c += 1;
            }
            if m.len() == C {
                cx.probe("filled_to_full");
            }
        }
        Op::DropNew { dflt, .. } => {
            let fresh: Map<K, V, C> = if *dflt { win!(aw, Map::default()) } else { win!(aw, Map::new()) };
            let old = std::mem::replace(m, fresh);
            if !pre.is_empty() {
                cx.probe("map_dropped_nonempty");
            }
            win!(aw, drop(old));
        }
        Op::WithCap { c, .. } => {
            #[allow(deprecated)]
            let nm: Map<K, V, C> = Map::with_capacity(*c as usize);
            let old = std::mem::replace(m, nm);
            drop(old);
        }
        _ => unreachable!("not a single-map operation: {op:?}"),
    }
}


/// The lookup family, generic over the form of the lookup argument (the key type itself or its
/// borrowed form).
fn map_lookup<K: SimK + Borrow<Q>, V: SimV, const C: usize, Q: PartialEq + ?Sized>(m: &mut Map<K, V, C>, cx: &mut Cx<K, V>, op: &Op, q: &Q) {
    let aw = cx.cfg.alloc_window;
    let (base, size) = range_of(m);
    cx.tagctr += 1;
    let np = 5000 + cx.tagctr as u64;
    match op {
        Op::Get { .. } => {
            if let Some(v) = win!(aw, m.get::<Q>(q)) {
                cx.see_v("get", v, base, size);
            } else {
                cx.dg(1);
            }
        }
        Op::GetMut { .. } => {
            if let Some(v) = win!(aw, m.get_mut::<Q>(q)) {
                cx.see_v("get_mut", v, base, size);
                v.set_payload(np);
            } else {
                cx.dg(1);
            }
        }
        Op::GetKv { .. } => {
            if let Some((k, v)) = win!(aw, m.get_key_value::<Q>(q)) {
                cx.see_k("get_key_value", k, base, size);
                cx.see_v("get_key_value", v, base, size);
            } else {
                cx.dg(1);
            }
        }
        Op::Contains { .. } => {
            let r = win!(aw, m.contains_key::<Q>(q));
            cx.dg(r as u64);
        }
        Op::Index { .. } => {
            let v = win!(aw, <Map<K, V, C> as core::ops::Index<&Q>>::index(m, q));
            cx.see_v("index", v, base, size);
        }
        Op::IndexMut { .. } => {
            let v = win!(aw, <Map<K, V, C> as core::ops::IndexMut<&Q>>::index_mut(m, q));
            cx.see_v("index_mut", v, base, size);
            v.set_payload(np);
        }
        Op::Remove { .. } => {
            if let Some(v) = win!(aw, m.remove::<Q>(q)) {
                cx.ret_v("remove", v);
            }
        }
        Op::RemoveEntry { .. } => {
            if let Some((k, v)) = win!(aw, m.remove_entry::<Q>(q)) {
                cx.ret_k("remove_entry", k);
                cx.ret_v("remove_entry", v);
            }
        }
        _ => unreachable!(),
    }
}

#[allow(clippy::too_many_arguments)]
fn entry_op<K: SimK, V: SimV, const C: usize>(m: &mut Map<K, V, C>, cx: &mut Cx<K, V>, c: u32, act: EntryAct, t: T, pre: &Snap, out: &mut OpOut, base: usize, size: usize) {
    let aw = cx.cfg.alloc_window;
    let anon_keys_before = env::with(|e| e.anon_live[0]);
    let k = cx.mk_k(c);
    let kid = k.peek().id;
    cx.tagctr += 1;
    let tag = cx.tagctr;
    let full = pre.len() == C;
    let present = has_class(pre, c, K::ANON);
    let inserting = matches!(act, EntryAct::OrInsert | EntryAct::OrInsertWith | EntryAct::OrInsertWithKey | EntryAct::OrDefault | EntryAct::AndModifyOrInsert | EntryAct::AndModifyOrDefault | EntryAct::VacInsert);
    if inserting {
        out.adds = Some((false, t, c));
        if full && !present {
            cx.probe("overflow_via_entry");
        }
    }
    let e = win!(aw, m.entry(k));
    let vacant = matches!(e, Entry::Vacant(_));
    cx.dg(vacant as u64);
    let mkv = move || {
        env::touch(Cb::Closure, None, None);
        V::make(1000 + tag as u64, tag)
    };
    match act {
        EntryAct::OrInsert => {
            let v = V::make(1000 + tag as u64, tag);
            let r = win!(aw, e.or_insert(v));
            cx.see_v("or_insert", r, base, size);
        }
        EntryAct::OrInsertWith => {
            let r = win!(aw, e.or_insert_with(mkv));
            cx.see_v("or_insert_with", r, base, size);
        }
        EntryAct::OrInsertWithKey => {
            let r = win!(aw, {
                e.or_insert_with_key(|k| {
                    let p = k.peek();
                    env::touch(Cb::Closure, Some(&p), None);
                    V::make(1000 + tag as u64, tag)
                })
            });
            cx.see_v("or_insert_with_key", r, base, size);
        }
        EntryAct::OrDefault => {
            let r = win!(aw, e.or_default());
            cx.see_v("or_default", r, base, size);
        }
        EntryAct::AndModifyOrInsert | EntryAct::AndModifyOrDefault => {
            let e2 = win!(aw, {
                e.and_modify(|v| {
                    let p = v.peek();
                    env::touch(Cb::Closure, Some(&p), None);
                    {
                        let _p = crate::alloc::Pause::new();
                        cx.inside("and_modify closure", v as *const V as usize, std::mem::size_of::<V>(), std::mem::align_of::<V>(), base, size);
                    }
                    v.set_payload(v.payload().wrapping_add(1));
                })
            });
            if act == EntryAct::AndModifyOrInsert {
                let v = V::make(1000 + tag as u64, tag);
                let r = win!(aw, e2.or_insert(v));
                cx.see_v("and_modify.or_insert", r, base, size);
            } else {
                let r = win!(aw, e2.or_default());
                cx.see_v("and_modify.or_default", r, base, size);
            }
        }
        EntryAct::Key => {
            let kk = win!(aw, e.key());
            let p = kk.peek();
            cx.dg(p.id);
            if p.bad != 0 {
                violate("use-of-nonlive", "Entry::key() returned a reference to something that is not a key".into());
            }
            if !vacant {
                // an occupied entry's key is the stored key: it lives inside the map
                cx.see_k("Entry::key (occupied)", kk, base, size);
            }
            win!(aw, drop(e));
        }
        EntryAct::Abandon => {
            cx.probe("entry_abandoned");
            win!(aw, drop(e));
        }
        EntryAct::Forget => {
            std::mem::forget(e);
            // whatever key object the forgotten entry still owned is gone with it (a vacant entry
            // owns the probe key; an occupied one may or may not keep it)
            if K::ANON {
                if env::with(|e| e.anon_live[0]) == anon_keys_before + 1 {
                    cx.anon_forgotten[0] += 1;
                    cx.probe("entry_forgotten_with_key");
                }
            } else if !K::PLAIN && env::with(|e| e.objs[kid as usize - 1].live()) && !snap_map(m).iter().any(|x| x.kid == kid) {
                cx.forgotten.push(kid);
                cx.probe("entry_forgotten_with_key");
            }
        }
        _ => match e {
            Entry::Occupied(mut o) => match act {
                EntryAct::OccGet => {
                    let r = win!(aw, o.get());
                    cx.see_v("OccupiedEntry::get", r, base, size);
                }
                EntryAct::OccKey => {
                    let r = win!(aw, o.key());
                    cx.see_k("OccupiedEntry::key", r, base, size);
                }
                EntryAct::OccGetMut => {
                    let r = win!(aw, o.get_mut());
                    cx.see_v("OccupiedEntry::get_mut", r, base, size);
                    r.set_payload(8000 + tag as u64);
                }
                EntryAct::OccInsert => {
                    let v = V::make(1000 + tag as u64, tag);
                    out.new_val = v.peek().id;
                    let old = win!(aw, o.insert(v));
                    cx.ret_v("OccupiedEntry::insert", old);
                }
                EntryAct::OccRemove => {
                    let v = win!(aw, o.remove());
                    cx.ret_v("OccupiedEntry::remove", v);
                }
                EntryAct::OccRemoveEntry => {
                    let (k, v) = win!(aw, o.remove_entry());
                    cx.ret_k("OccupiedEntry::remove_entry", k);
                    cx.ret_v("OccupiedEntry::remove_entry", v);
                }
                EntryAct::OccIntoMut => {
                    let r = win!(aw, o.into_mut());
                    cx.see_v("OccupiedEntry::into_mut", r, base, size);
                    r.set_payload(8500 + tag as u64);
                }
                _ => win!(aw, drop(o)),
            },
            Entry::Vacant(v) => match act {
                EntryAct::VacInsert => {
                    let val = V::make(1000 + tag as u64, tag);
                    let r = win!(aw, v.insert(val));
                    cx.see_v("VacantEntry::insert", r, base, size);
                }
                EntryAct::VacIntoKey => {
                    let k = win!(aw, v.into_key());
                    if !K::ANON && k.peek().id != kid {
                        violate("use-of-nonlive", "VacantEntry::into_key returned a different object than the key given to entry()".into());
                    }
                    cx.ret_k("VacantEntry::into_key", k);
                }
                EntryAct::VacKey => {
                    let r = win!(aw, v.key());
                    cx.dg(r.peek().id);
                    win!(aw, drop(v));
                }
                _ => win!(aw, drop(v)),
            },
        },
    }
}

/// A default-constructed iterator is empty, says so, renders as an empty list and can be dropped.
fn default_iter<K: SimK, V: SimV, const C: usize>(cx: &mut Cx<K, V>, which: u8) {
    let aw = cx.cfg.alloc_window;
    macro_rules! chk {
        ($name:expr, $it:expr, $dbg:expr) => {{
            let mut it = win!(aw, $it);
            let (l, h) = (it.len(), it.size_hint());
            if l != 0 || h != (0, Some(0)) {
                violate("inexact-length", format!("{}::default(): len()={l}, size_hint()={h:?} for an iterator over nothing", $name));
            }
            if $dbg {
                let mut sink = crate::sink::Sink::new(256, None);
                let r = win!(aw, core::fmt::write(&mut sink, format_args!("{:?}", it)));
                if r.is_err() || sink.text() != "[]" {
                    violate("wrong-text", format!("{}::default(): Debug renders {:?} instead of \"[]\"", $name, sink.text()));
                }
            }
            for _ in 0..2 {
                if win!(aw, it.next()).is_some() {
                    violate("wrong-yield", format!("{}::default() yielded an item", $name));
                }
            }
            cx.dg(it.len() as u64);
            win!(aw, drop(it));
        }};
    }
    cx.probe("default_iterator");
    match which % 8 {
        0 => chk!("Iter", micromap::Iter::<K, V>::default(), true),
        1 => chk!("IterMut", micromap::IterMut::<K, V>::default(), true),
        2 => chk!("IntoIter", micromap::IntoIter::<K, V, C>::default(), true),
        3 => chk!("Keys", micromap::Keys::<K, V>::default(), true),
        4 => chk!("IntoKeys", micromap::IntoKeys::<K, V, C>::default(), true),
        5 => chk!("Values", micromap::Values::<K, V>::default(), true),
        6 => chk!("ValuesMut", micromap::ValuesMut::<K, V>::default(), true),
        _ => chk!("IntoValues", micromap::IntoValues::<K, V, C>::default(), true),
    }
}

#[allow(clippy::too_many_arguments)]
fn disjoint<K: SimK, V: SimV, const C: usize, const J: usize>(m: &mut Map<K, V, C>, cx: &mut Cx<K, V>, cs: &[u32], f: Form, pre: &Snap, base: usize, size: usize, unchecked: bool) {
    let aw = cx.cfg.alloc_window;
    let mut overlap = false;
    for i in 0..J {
        for j in 0..i {
            if cs[i] == cs[j] || K::ANON {
                overlap = true;
            }
        }
    }
    if overlap {
        cx.probe("disjoint_overlapping_keys");
    }
    if J > pre.len() {
        cx.probe("disjoint_more_keys_than_entries");
    }
    cx.tagctr += 1;
    let np = 9000 + cx.tagctr as u64 * 8;
    let check = |cx: &mut Cx<K, V>, r: [Option<&mut V>; J]| {
        let mut addrs: Vec<(usize, u64)> = Vec::new();
        for (i, o) in r.into_iter().enumerate() {
            if let Some(v) = o {
                let a = v as *mut V as usize;
                let id = cx.see_v("get_disjoint_mut", v, base, size);
                for (b, _) in &addrs {
                    // zero-sized values occupy no storage: references to them cannot overlap
                    let sz = std::mem::size_of::<V>();
                    if sz > 0 && a < b + sz && *b < a + sz {
                        violate("aliasing", format!("get_disjoint_mut returned two mutable references to overlapping storage (value #{id})"));
                    }
                }
                v.set_payload(np + i as u64);
                addrs.push((a, np + i as u64));
            } else {
                cx.dg(0);
            }
        }
        addrs
    };
    let written = match f {
        Form::Own => {
            let probes: Vec<K> = (0..J).map(|i| cx.mk_k(cs[i])).collect();
            let w = {
                let ks: [&K; J] = core::array::from_fn(|i| &probes[i]);
                let r = if unchecked { win!(aw, unsafe { m.get_disjoint_unchecked_mut::<K, J>(ks) }) } else { win!(aw, m.get_disjoint_mut::<K, J>(ks)) };
                check(cx, r)
            };
            cx.pocket_k.extend(probes);
            w
        }
        Form::Bor => {
            let qs: Vec<Class> = (0..J).map(|i| Class(cs[i])).collect();
            let ks: [&Class; J] = core::array::from_fn(|i| &qs[i]);
            let r = if unchecked { win!(aw, unsafe { m.get_disjoint_unchecked_mut::<Class, J>(ks) }) } else { win!(aw, m.get_disjoint_mut::<Class, J>(ks)) };
            check(cx, r)
        }
    };
    // writes through all references must all have landed in distinct values
    if !V::ANON {
        for (a, want) in written {
            let got = m.iter().find(|(_, v)| *v as *const V as usize == a).map(|(_, v)| v.payload());
            if got != Some(want) {
                violate("aliasing", format!("a write through a reference returned by get_disjoint_mut was lost or landed elsewhere (wanted {want}, found {got:?})"));
            }
        }
    }
}
