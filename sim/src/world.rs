//! The simulated world of one run: four real micromap containers (map A/B, set
//! A/B) inside guarded, relocatable storage, the harness's "pockets" (objects
//! the API handed back), and the model-free observation functions the oracles
//! are built from (identity snapshots, well-formedness, place tracking).

use crate::env::{self, Mode};
use crate::payload::{Class, SimK, SimV};
use crate::plan::Cfg;
use micromap::{Map, Set};
use std::collections::BTreeMap;

pub const CANARY: u64 = 0xC0DE_CAFE_F00D_BEEF;

#[repr(C)]
pub struct Guard<T> {
    pub pre: [u64; 4],
    pub val: T,
    pub post: [u64; 4],
}

pub struct Slot<T> {
    pub g: Box<Guard<T>>,
}

impl<T> Slot<T> {
    pub fn new(val: T) -> Self {
        Slot { g: Box::new(Guard { pre: [CANARY; 4], val, post: [CANARY; 4] }) }
    }
    pub fn canaries_ok(&self) -> bool {
        self.g.pre == [CANARY; 4] && self.g.post == [CANARY; 4]
    }
    /// Moves the container value to a different heap address (via the stack).
    pub fn relocate(&mut self, fresh: T) {
        let old = std::mem::replace(&mut self.g.val, fresh);
        let mut nb = Box::new(Guard { pre: [CANARY; 4], val: old, post: [CANARY; 4] });
        std::mem::swap(&mut self.g, &mut nb);
        // nb now holds the old box with the `fresh` value; scribble over the canaries so that
        // a stale pointer into the old storage does not look healthy
        nb.pre = [0xDEAD_DEAD_DEAD_DEAD; 4];
        nb.post = [0xDEAD_DEAD_DEAD_DEAD; 4];
        drop(nb);
    }
}

/// One entry as seen through `iter()`, by identity. No user code runs to obtain it.
#[derive(Clone, Debug, PartialEq, Eq)]
pub struct Ent {
    pub kid: u64,
    pub kclass: u32,
    pub ktag: u32,
    pub vid: u64,
    pub vpay: u64,
    pub kbad: u8,
    pub vbad: u8,
}

pub type Snap = Vec<Ent>;

pub fn has_class(s: &Snap, c: u32, anon_k: bool) -> bool {
    if anon_k {
        !s.is_empty()
    } else {
        s.iter().any(|e| e.kclass == c)
    }
}

pub fn snap_map<K: SimK, V: SimV, const C: usize>(m: &Map<K, V, C>) -> Snap {
    m.iter()
        .map(|(k, v)| {
            let (pk, pv) = (k.peek(), v.peek());
            Ent { kid: pk.id, kclass: pk.class, ktag: pk.tag, vid: pv.id, vpay: v.payload(), kbad: pk.bad, vbad: pv.bad }
        })
        .collect()
}

pub fn snap_set<K: SimK, const C: usize>(s: &Set<K, C>) -> Snap {
    s.iter()
        .map(|k| {
            let pk = k.peek();
            Ent { kid: pk.id, kclass: pk.class, ktag: pk.tag, vid: 0, vpay: 0, kbad: pk.bad, vbad: 0 }
        })
        .collect()
}

pub fn violate(rule: &str, detail: String) {
    let _p = crate::alloc::Pause::new();
    env::with(|e| e.violate(rule, detail));
}

/// Per-run harness context shared by all operations.
pub struct Cx<K: SimK, V: SimV> {
    pub cfg: Cfg,
    pub pocket_k: Vec<K>,
    pub pocket_v: Vec<V>,
    /// identities inside a holder the plan forgot: never to be seen or destroyed again
    pub forgotten: Vec<u64>,
    pub anon_forgotten: [i64; 2],
    /// identities whose leak was tolerated (arguments / operands of a faulted operation)
    pub leaked_ok: Vec<u64>,
    pub anon_leaked_ok: [i64; 2],
    pub tagctr: u32,
    pub lying: bool,
    pub probes: BTreeMap<&'static str, u64>,
    /// abstract states seen: (container, len, classes in iteration order) hashed
    pub states: Vec<u64>,
    /// result digest of the current operation, folded into the trace
    pub digest: u64,
    /// set by an operation when it expects the container to raise a panic (diagnostics)
    pub note: String,
}

impl<K: SimK, V: SimV> Cx<K, V> {
    pub fn new(cfg: Cfg) -> Self {
        let lying = cfg.lie != env::Lie::Truth || cfg.lie_borrow;
        Cx {
            cfg,
            pocket_k: Vec::new(),
            pocket_v: Vec::new(),
            forgotten: Vec::new(),
            anon_forgotten: [0; 2],
            leaked_ok: Vec::new(),
            anon_leaked_ok: [0; 2],
            tagctr: 0,
            lying,
            probes: BTreeMap::new(),
            states: Vec::new(),
            digest: 0,
            note: String::new(),
        }
    }

    pub fn probe(&mut self, name: &'static str) {
        *self.probes.entry(name).or_insert(0) += 1;
    }

    pub fn dg(&mut self, x: u64) {
        self.digest = (self.digest ^ x).wrapping_mul(0x0000_0100_0000_01B3).rotate_left(7);
    }

    pub fn mk_k(&mut self, class: u32) -> K {
        self.tagctr += 1;
        K::make(class, self.tagctr)
    }

    pub fn mk_v(&mut self) -> V {
        self.tagctr += 1;
        V::make(1000 + self.tagctr as u64, self.tagctr)
    }

    /// A key the API handed back by value.
    pub fn ret_k(&mut self, what: &str, k: K) {
        let p = k.peek();
        self.dg(p.id);
        let live = env::peek_live(&p);
        if !live {
            violate("use-of-nonlive", format!("{what} returned a key that is not a live object (bad={}, id={})", p.bad, p.id));
        } else if !k.intact() {
            violate("use-of-nonlive", format!("{what} returned a damaged key #{}", p.id));
        }
        self.pocket_k.push(k);
    }

    pub fn ret_v(&mut self, what: &str, v: V) {
        let p = v.peek();
        self.dg(p.id);
        let live = env::peek_live(&p);
        if !live {
            violate("use-of-nonlive", format!("{what} returned a value that is not a live object (bad={}, id={})", p.bad, p.id));
        } else if !v.intact() {
            violate("use-of-nonlive", format!("{what} returned a damaged value #{}", p.id));
        }
        self.pocket_v.push(v);
    }

    /// A reference the API handed out: must denote a live object stored inside the container bytes.
    pub fn see_k(&mut self, what: &str, k: &K, base: usize, size: usize) -> u64 {
        let p = k.peek();
        self.dg(p.id);
        let live = env::peek_live(&p);
        if !live {
            violate("use-of-nonlive", format!("{what} handed out a reference to a key that is not live (bad={}, id={})", p.bad, p.id));
        }
        self.inside(what, k as *const K as usize, std::mem::size_of::<K>(), std::mem::align_of::<K>(), base, size);
        p.id
    }

    pub fn see_v(&mut self, what: &str, v: &V, base: usize, size: usize) -> u64 {
        let p = v.peek();
        self.dg(p.id);
        let live = env::peek_live(&p);
        if !live {
            violate("use-of-nonlive", format!("{what} handed out a reference to a value that is not live (bad={}, id={})", p.bad, p.id));
        }
        self.inside(what, v as *const V as usize, std::mem::size_of::<V>(), std::mem::align_of::<V>(), base, size);
        p.id
    }

    pub fn inside(&mut self, what: &str, addr: usize, sz: usize, align: usize, base: usize, size: usize) {
        if base == 0 {
            return;
        }
        // zero-sized elements too: their address must lie within the container value (end inclusive)
        if addr < base || addr + sz > base + size {
            violate("outside-container", format!("{what}: reference at offset {} (size {sz}) is outside the {size} bytes of the container value", addr as i64 - base as i64));
        }
        if align > 0 && addr % align != 0 {
            violate("outside-container", format!("{what}: misaligned reference"));
        }
    }

    /// Drops everything the harness holds (in Observe mode: never faulted).
    pub fn empty_pockets(&mut self) {
        debug_assert!(env::with(|e| e.mode == Mode::Observe));
        self.pocket_k.clear();
        self.pocket_v.clear();
    }

    pub fn note_state(&mut self, which: u64, s: &Snap) {
        if s.is_empty() {
            return;
        }
        let mut h = 0xcbf2_9ce4_8422_2325u64 ^ which;
        h = h.wrapping_mul(0x0000_0100_0000_01B3) ^ s.len() as u64;
        for e in s {
            h = h.wrapping_mul(0x0000_0100_0000_01B3) ^ e.kclass as u64;
        }
        self.states.push(h);
    }
}

/// The C05 invariant on a map, stated only over the container's own answers.
pub fn wf_map<K: SimK, V: SimV, const C: usize>(name: &str, m: &Map<K, V, C>, lying: bool) {
    let len = m.len();
    let mut n = 0usize;
    let it = m.iter();
    let il = it.len();
    let mut ents: Vec<(&K, &V)> = Vec::new();
    for (k, v) in it {
        n += 1;
        if n > C + 4 {
            break;
        }
        ents.push((k, v));
    }
    if n != len || il != len {
        violate("len-vs-iteration", format!("{name}: len()={len} but iteration yields {n} (iter().len()={il})"));
    }
    if len > m.capacity() || m.capacity() != C {
        violate("capacity-drift", format!("{name}: len()={len}, capacity()={} for N={C}", m.capacity()));
    }
    if m.is_empty() != (len == 0) {
        violate("len-vs-iteration", format!("{name}: is_empty()={} with len()={len}", m.is_empty()));
    }
    // every yielded entry must be a live object, and no object may be yielded twice
    let mut ids: Vec<u64> = Vec::new();
    for (k, v) in &ents {
        let (pk, pv) = (k.peek(), v.peek());
        for p in [pk, pv] {
            if p.anon {
                continue;
            }
            let live = env::peek_live(&p);
            if !live {
                violate("yields-nonlive", format!("{name}: iteration yields a {} that is not a live object (bad={}, id={})", env::kname(p.kind), p.bad, p.id));
                return;
            }
            let key = p.id * 2 + p.kind as u64;
            if ids.contains(&key) {
                violate("yields-twice", format!("{name}: iteration yields {} #{} twice", env::kname(p.kind), p.id));
                return;
            }
            ids.push(key);
        }
        if !k.intact() || !v.intact() {
            violate("yields-nonlive", format!("{name}: iteration yields a damaged object (key #{})", pk.id));
            return;
        }
    }
    if lying {
        return;
    }
    // keys pairwise unequal (truthful comparison of the classes the keys carry)
    for i in 0..ents.len() {
        for j in 0..i {
            let (a, b) = (ents[i].0.peek(), ents[j].0.peek());
            if a.anon || a.class == b.class {
                violate("duplicate-key", format!("{name}: iteration yields two equal keys (#{} and #{}, class {})", b.id, a.id, a.class));
                return;
            }
        }
    }
    // every yielded key can be looked up and returns the value yielded with it (in containers with
    // more than 64 entries: the first and last eight and every (len/16)-th one, to keep the cost linear)
    let n_ents = ents.len();
    let stride = if n_ents > 64 { n_ents / 16 } else { 1 };
    for (i, (k, v)) in ents.iter().enumerate() {
        if !(i < 8 || i + 8 >= n_ents || i % stride == 0) {
            continue;
        }
        let pk = k.peek();
        let want = *v as *const V;
        let q = Class(pk.class);
        let got = [
            m.get::<K>(*k).map(|x| x as *const V),
            m.get_key_value::<K>(*k).map(|x| x.1 as *const V),
            if m.contains_key::<K>(*k) { Some(want) } else { None },
            m.get(&q).map(|x| x as *const V),
            if m.contains_key(&q) { Some(want) } else { None },
        ];
        for (i, g) in got.iter().enumerate() {
            if *g != Some(want) {
                violate(
                    "lookup-mismatch",
                    format!("{name}: key #{} (class {}) is yielded by iteration but lookup form {i} {}", pk.id, pk.class, if g.is_none() { "does not find it" } else { "returns a different value object" }),
                );
                return;
            }
        }
        if let Some((k2, _)) = m.get_key_value::<K>(*k) {
            if k2 as *const K != *k as *const K {
                violate("lookup-mismatch", format!("{name}: get_key_value for key #{} returns a different key object", pk.id));
                return;
            }
        }
    }
}

pub fn wf_set<K: SimK, const C: usize>(name: &str, s: &Set<K, C>, lying: bool) {
    let len = s.len();
    let it = s.iter();
    let il = it.len();
    let mut ents: Vec<&K> = Vec::new();
    let mut n = 0;
    for k in it {
        n += 1;
        if n > C + 4 {
            break;
        }
        ents.push(k);
    }
    if n != len || il != len {
        violate("len-vs-iteration", format!("{name}: len()={len} but iteration yields {n} (iter().len()={il})"));
    }
    if len > s.capacity() || s.capacity() != C {
        violate("capacity-drift", format!("{name}: len()={len}, capacity()={} for N={C}", s.capacity()));
    }
    if s.is_empty() != (len == 0) {
        violate("len-vs-iteration", format!("{name}: is_empty()={} with len()={len}", s.is_empty()));
    }
    let mut ids: Vec<u64> = Vec::new();
    for k in &ents {
        let p = k.peek();
        if p.anon {
            continue;
        }
        let live = env::peek_live(&p);
        if !live {
            violate("yields-nonlive", format!("{name}: iteration yields a key that is not a live object (bad={}, id={})", p.bad, p.id));
            return;
        }
        if ids.contains(&p.id) {
            violate("yields-twice", format!("{name}: iteration yields key #{} twice", p.id));
            return;
        }
        ids.push(p.id);
        if !k.intact() {
            violate("yields-nonlive", format!("{name}: iteration yields a damaged key #{}", p.id));
            return;
        }
    }
    if lying {
        return;
    }
    for i in 0..ents.len() {
        for j in 0..i {
            let (a, b) = (ents[i].peek(), ents[j].peek());
            if a.anon || a.class == b.class {
                violate("duplicate-key", format!("{name}: iteration yields two equal elements (#{} and #{}, class {})", b.id, a.id, a.class));
                return;
            }
        }
    }
    let n_ents = ents.len();
    let stride = if n_ents > 64 { n_ents / 16 } else { 1 };
    for (i, k) in ents.iter().enumerate() {
        if !(i < 8 || i + 8 >= n_ents || i % stride == 0) {
            continue;
        }
        let pk = k.peek();
        let q = Class(pk.class);
        let want = Some(*k as *const K);
        let got = [
            s.get::<K>(*k).map(|x| x as *const K),
            if s.contains::<K>(*k) { want } else { None },
            s.get(&q).map(|x| x as *const K),
            if s.contains(&q) { want } else { None },
        ];
        for (i, g) in got.iter().enumerate() {
            if *g != want {
                violate(
                    "lookup-mismatch",
                    format!("{name}: element #{} (class {}) is yielded by iteration but lookup form {i} {}", pk.id, pk.class, if g.is_none() { "does not find it" } else { "returns a different object" }),
                );
                return;
            }
        }
    }
}

/// Runs harness observation code in the middle of an operation: callbacks made meanwhile are
/// truthful, never faulted and not counted as callbacks of the operation.
pub fn observing<R>(f: impl FnOnce() -> R) -> R {
    struct G(Mode);
    impl Drop for G {
        fn drop(&mut self) {
            let m = self.0;
            env::with(|e| e.mode = m);
        }
    }
    let _g = G(env::with(|e| std::mem::replace(&mut e.mode, Mode::Observe)));
    let _p = crate::alloc::Pause::new();
    f()
}
