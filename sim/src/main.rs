//! microsim — deterministic simulation with fault injection for yegor256/micromap.
//!
//! Subcommands:
//!   check   --prop C04 --tier quick|thorough [--seed N] [--jobs N] [--bases N] [--dev-bin PATH --dev-bases N]
//!   worker  (internal) one share of a check, prints its statistics as JSON
//!   replay  FILE      re-executes a replay file; exit 1 + VIOLATION line when it reproduces
//!   plan    --prop C04 --seed N --run I     prints the base plan of a run
//!   run     FILE      runs a plan (or replay) file and prints every violation (used under Miri)
//!   determinism --prop C04 --seed N --bases N   prints one trace hash per run

mod alloc;
mod dispatch;
mod driver;
mod env;
mod exec;
mod gen;
mod ops;
mod ops_big;
mod ops_bulk;
mod ops_fmt;
mod ops_iter;
mod ops_map;
mod ops_serde;
mod ops_set;
mod payload;
mod plan;
mod props;
mod sink;
mod supervisor;
mod world;

#[global_allocator]
static GLOBAL: alloc::SimAlloc = alloc::SimAlloc;

use std::collections::BTreeMap;

pub fn args_map(args: &[String]) -> (BTreeMap<String, String>, Vec<String>) {
    let mut m = BTreeMap::new();
    let mut pos = Vec::new();
    let mut i = 0;
    while i < args.len() {
        if let Some(k) = args[i].strip_prefix("--") {
            if i + 1 < args.len() && !args[i + 1].starts_with("--") {
                m.insert(k.to_string(), args[i + 1].clone());
                i += 2;
            } else {
                m.insert(k.to_string(), "1".to_string());
                i += 1;
            }
        } else {
            pos.push(args[i].clone());
            i += 1;
        }
    }
    (m, pos)
}

fn quiet_panics() {
    if std::env::var("MICROSIM_LOUD").is_ok() {
        return;
    }
    // injected panics and the container's own panics are part of normal operation
    std::panic::set_hook(Box::new(|_| {}));
}

fn main() {
    let argv: Vec<String> = std::env::args().collect();
    if argv.len() < 2 {
        eprintln!("usage: microsim check|worker|replay|plan|run|determinism ...");
        std::process::exit(2);
    }
    let (a, pos) = args_map(&argv[2..]);
    let get = |k: &str, d: &str| a.get(k).cloned().unwrap_or(d.to_string());
    let num = |k: &str, d: u64| a.get(k).and_then(|v| v.parse::<u64>().ok()).unwrap_or(d);
    match argv[1].as_str() {
        "check" => {
            let code = supervisor::check(&a);
            std::process::exit(code);
        }
        "worker" => {
            quiet_panics();
            let known = supervisor::load_known(&get("known", ""));
            let wa = driver::WorkerArgs {
                prop: get("prop", "C04"),
                thorough: get("tier", "quick") == "thorough",
                seed: num("seed", 1),
                from: num("from", 0),
                to: num("to", 1),
                stride: num("stride", 1).max(1),
                known,
                cur_file: a.get("cur-file").cloned(),
                max_found: num("max-found", 8) as usize,
                stop_file: a.get("stop-file").cloned(),
            };
            if let Some(f) = a.get("out").cloned() {
                driver::start_hang_monitor(move |idx, var| {
                    let _ = std::fs::write(format!("{f}.hang"), format!("{idx} {var}"));
                });
            }
            let st = driver::worker(&wa);
            let out = serde_json::to_string(&st).unwrap();
            match a.get("out") {
                Some(f) => std::fs::write(f, out).unwrap(),
                None => println!("{out}"),
            }
        }
        "replay" => {
            quiet_panics();
            let Some(f) = pos.first() else {
                eprintln!("usage: microsim replay FILE");
                std::process::exit(2);
            };
            let text = std::fs::read_to_string(f).unwrap_or_else(|e| {
                eprintln!("cannot read {f}: {e}");
                std::process::exit(2)
            });
            let r: plan::Replay = serde_json::from_str(&text).unwrap_or_else(|e| {
                eprintln!("not a replay file: {e}");
                std::process::exit(2)
            });
            if !dispatch::supported(&r.plan) {
                eprintln!("replay file names a (shape, N, M) combination this build has no executor for");
                std::process::exit(2);
            }
            {
                let (prop, file) = (r.property.clone(), f.clone());
                driver::start_hang_monitor(move |_, _| {
                    println!("the replayed plan makes no progress for {} s: an operation does not terminate", driver::HANG_SECS);
                    println!("VIOLATION property={prop} replay={file}");
                    // the monitor ends the process with status 3; ./check maps that to 1
                });
            }
            let out = dispatch::run_plan(&r.plan);
            println!("seed={} run={} ops={} faults={} events={} trace={:016x}", r.seed, r.run, r.plan.ops.len(), r.plan.faults.len(), out.events, out.trace);
            for v in &out.viols {
                println!("  step {:>2} event {:>5}: {} — {}", v.step, v.seq, v.rule, v.detail);
            }
            match driver::sig_of(&r.property, &r.plan, &out) {
                Some((s, _, step)) if s.rule == r.rule && step == r.step => {
                    println!("VIOLATION property={} replay={}", r.property, f);
                    std::process::exit(1);
                }
                Some((s, _, step)) => {
                    println!("a different violation of {} shows: rule {} at step {} (recorded: {} at step {})", r.property, s.rule, step, r.rule, r.step);
                    println!("VIOLATION property={} replay={}", r.property, f);
                    std::process::exit(1);
                }
                None => {
                    println!("the recorded violation ({} at step {}) does not occur on this tree", r.rule, r.step);
                    std::process::exit(0);
                }
            }
        }
        "plan" => {
            let prop = get("prop", "C04");
            let p = gen::base_plan(num("seed", 1), props::prop_no(&prop), num("run", 0), &props::profile(&prop));
            match a.get("variant").and_then(|v| v.parse::<usize>().ok()) {
                None => println!("{}", serde_json::to_string(&p).unwrap()),
                Some(vi) => {
                    // the vi-th enumerated variant of the base plan (needs its fault-free dry run)
                    quiet_panics();
                    let dry = dispatch::run_plan(&p);
                    let mut vr = env::SplitMix(env::mix(num("seed", 1) ^ 0xABCD, props::prop_no(&prop), num("run", 0)));
                    let vars = props::variants(&prop, &p, &dry, &mut vr, get("tier", "quick") == "thorough");
                    println!("{}", serde_json::to_string(vars.get(vi).unwrap_or(&p)).unwrap());
                }
            }
        }
        "run" => {
            quiet_panics();
            let Some(f) = pos.first() else {
                eprintln!("usage: microsim run FILE");
                std::process::exit(2);
            };
            let text = std::fs::read_to_string(f).unwrap();
            let p: plan::Plan = match serde_json::from_str::<plan::Replay>(&text) {
                Ok(r) => r.plan,
                Err(_) => serde_json::from_str(&text).unwrap(),
            };
            let out = dispatch::run_plan(&p);
            println!("events={} trace={:016x} violations={}", out.events, out.trace, out.viols.len());
            for v in &out.viols {
                println!("  step {:>2} event {:>5}: {} — {}", v.step, v.seq, v.rule, v.detail);
            }
            std::process::exit(if out.viols.is_empty() { 0 } else { 1 });
        }
        "miri-batch" => {
            // in-process batch for the Miri substrate: no child processes, no files
            quiet_panics();
            let prop = get("prop", "C04");
            let (seed, from, to) = (num("seed", 1), num("from", 0), num("to", 4));
            let prof = props::profile(&prop);
            let mut runs = 0u64;
            for idx in from..to {
                let base = gen::base_plan(seed, props::prop_no(&prop), idx, &prof);
                if base.cfg.n.max(base.cfg.m) >= 100 {
                    // the large-capacity configuration would take an interpreter many minutes per plan
                    continue;
                }
                eprintln!("MIRI-BASE {idx}");
                let dry = dispatch::run_plan(&base);
                runs += 1;
                let mut vr = env::SplitMix(env::mix(seed ^ 0xABCD, props::prop_no(&prop), idx));
                let vars = props::variants(&prop, &base, &dry, &mut vr, false);
                let stride = (vars.len() / num("variants", 6).max(1) as usize).max(1);
                for (vi, v) in vars.iter().enumerate() {
                    if vi % stride != 0 {
                        continue;
                    }
                    eprintln!("MIRI-PLAN {}", serde_json::to_string(v).unwrap());
                    let out = dispatch::run_plan(v);
                    runs += 1;
                    if let Some((s, d, step)) = driver::sig_of(&prop, v, &out) {
                        println!("MIRI-VIOLATION {} {} step {} {}", s.property, s.rule, step, d);
                        std::process::exit(1);
                    }
                }
            }
            println!("MIRI-OK runs={runs}");
        }
        "determinism" => {
            quiet_panics();
            let prop = get("prop", "C04");
            let (seed, bases) = (num("seed", 1), num("bases", 100));
            let prof = props::profile(&prop);
            for idx in num("from", 0)..bases {
                let base = gen::base_plan(seed, props::prop_no(&prop), idx, &prof);
                let dry = dispatch::run_plan(&base);
                let mut vr = env::SplitMix(env::mix(seed ^ 0xABCD, props::prop_no(&prop), idx));
                let vars = props::variants(&prop, &base, &dry, &mut vr, false);
                let mut h = dry.trace;
                for v in &vars {
                    let o = dispatch::run_plan(v);
                    h = h.rotate_left(5) ^ o.trace ^ (o.viols.len() as u64) << 56;
                }
                println!("{idx} {:016x} {:016x} {}", dry.trace, h, vars.len());
            }
        }
        other => {
            eprintln!("unknown subcommand {other}");
            std::process::exit(2);
        }
    }
}
