//! One generic driver for every consuming iterator / drain session: takes `take`
//! items with `next()`, then lets go of the iterator in the way the plan says —
//! including through the provided `Iterator` methods (`fold`, `nth`, `count`,
//! `last`, `find`, `step_by`, ...) that an implementation may override.

use crate::alloc::Pause;
use crate::env::{self, Cb};
use crate::ops_map::{win, Session};
use crate::payload::{SimK, SimV};
use crate::plan::End;
use crate::world::{violate, Cx};

/// Returns the iterator when it still exists (the caller drops or forgets it).
#[allow(clippy::too_many_arguments)]
pub fn consume<K: SimK, V: SimV, I, X>(
    mut it: I,
    cx: &mut Cx<K, V>,
    sess: &mut Session<'_>,
    take: u8,
    end: End,
    ids: impl Fn(&X) -> (u64, u64) + Copy,
    give: impl Fn(&mut Cx<K, V>, X) + Copy,
    anon: (bool, bool),
    // what stepping an observationally identical twin container with `next()` alone yielded, in
    // order, as (key class, value payload) per item; `None` when no such twin could be had
    order: Option<(&[(u32, u64)], &dyn Fn(&X) -> (u32, u64))>,
) -> Option<I>
where
    I: Iterator<Item = X> + ExactSizeIterator,
{
    let aw = cx.cfg.alloc_window;
    let what = sess.what;
    // hands one yielded item to the harness; callable from inside the iterator's own methods
    macro_rules! yielded {
        ($x:expr) => {{
            let idx = sess.taken;
            yielded!($x, idx)
        }};
        ($x:expr, $idx:expr) => {{
            let _p = Pause::new();
            let x = $x;
            let (a, b) = ids(&x);
            if let Some((seq, key)) = &order {
                let idx: usize = $idx;
                let got = key(&x);
                if idx < seq.len() && seq[idx] != got {
                    violate("wrong-yield", format!("{what}: the item delivered for position {idx} of the sequence is (class {}, payload {}), but stepping an identical container with next() alone yields (class {}, payload {}) there", got.0, got.1, seq[idx].0, seq[idx].1));
                }
            }
            sess.got(a, b, anon);
            give(cx, x);
        }};
    }
    loop {
        sess.before_step(it.len(), it.size_hint());
        if sess.taken >= take as usize && end != End::Exhaust {
            break;
        }
        match win!(aw, it.next()) {
            Some(x) => {
                yielded!(x);
                if sess.taken % 2 == 1 {
                    // the holder may move the iterator value between two steps
                    let _p = Pause::new();
                    it = *Box::new(it);
                }
            }
            None => {
                sess.none();
                for _ in 0..3 {
                    if let Some(x) = win!(aw, it.next()) {
                        yielded!(x);
                    }
                }
                break;
            }
        }
    }
    let left = sess.s.len().saturating_sub(sess.taken);
    match end {
        End::Exhaust | End::Drop | End::Forget => Some(it),
        End::Fold => {
            cx.probe("session_end_fold");
            let n = win!(aw, it.fold(0usize, |acc, x| {
                env::touch(Cb::Closure, None, None);
                yielded!(x);
                acc + 1
            }));
            if n != left {
                violate("wrong-yield", format!("{what}: fold visited {n} items but {left} entries were still to come"));
            }
            sess.saw_none = true;
            None
        }
        End::ForEach => {
            cx.probe("session_end_for_each");
            let mut n = 0usize;
            win!(aw, it.for_each(|x| {
                env::touch(Cb::Closure, None, None);
                yielded!(x);
                n += 1;
            }));
            if n != left {
                violate("wrong-yield", format!("{what}: for_each visited {n} items but {left} entries were still to come"));
            }
            sess.saw_none = true;
            None
        }
        End::Count => {
            cx.probe("session_end_count");
            let n = win!(aw, it.count());
            if n != left {
                violate("inexact-length", format!("{what}: count() returned {n} but {left} entries were still to come"));
            }
            sess.taken += left;
            sess.saw_none = true;
            None
        }
        End::Last => {
            cx.probe("session_end_last");
            let l = win!(aw, it.last());
            if l.is_some() != (left > 0) {
                violate("wrong-yield", format!("{what}: last() returned {} although {left} entries were still to come", if l.is_some() { "an item" } else { "None" }));
            }
            sess.taken += left.saturating_sub(1);
            if let Some(x) = l {
                let idx = sess.s.len().saturating_sub(1);
                yielded!(x, idx);
            }
            sess.saw_none = true;
            None
        }
        End::MinBy => {
            cx.probe("session_end_min_by_key");
            let l = win!(aw, it.min_by_key(|x| {
                env::touch(Cb::Closure, None, None);
                let (a, b) = ids(x);
                a.max(b)
            }));
            if l.is_some() != (left > 0) {
                violate("wrong-yield", format!("{what}: min_by_key() returned {} although {left} entries were still to come", if l.is_some() { "an item" } else { "None" }));
            }
            sess.taken += left.saturating_sub(1);
            if let Some(x) = l {
                yielded!(x, usize::MAX);
            }
            sess.saw_none = true;
            None
        }
        End::Nth(k) | End::Skip(k) => {
            // the top of the range stands for enormous step counts (arithmetic on them must not wrap)
            let k = if k >= 250 { usize::MAX - (255 - k as usize) } else { k as usize };
            if k >= left {
                cx.probe("session_nth_past_the_end");
            } else {
                cx.probe("session_nth_within");
            }
            let r = if matches!(end, End::Nth(_)) { win!(aw, it.nth(k)) } else { win!(aw, it.by_ref().skip(k).next()) };
            if r.is_some() != (k < left) {
                violate("wrong-yield", format!("{what}: stepping over {k} items returned {} although {left} entries were still to come", if r.is_some() { "an item" } else { "None" }));
            }
            sess.taken += k.min(left);
            if let Some(x) = r {
                yielded!(x);
            }
            sess.before_step(it.len(), it.size_hint());
            Some(it)
        }
        End::Find(k) => {
            cx.probe("session_end_find");
            let k = k as usize;
            let mut c = 0usize;
            let r = win!(aw, it.find(|_x| {
                env::touch(Cb::Pred, None, None);
                c += 1;
                c - 1 == k
            }));
            if r.is_some() != (k < left) {
                violate("wrong-yield", format!("{what}: find() of the item at offset {k} returned {} although {left} entries were still to come", if r.is_some() { "an item" } else { "None" }));
            }
            sess.taken += k.min(left);
            if let Some(x) = r {
                yielded!(x);
            }
            sess.before_step(it.len(), it.size_hint());
            Some(it)
        }
        End::StepBy(k) => {
            cx.probe("session_end_step_by");
            let step = k as usize + 1;
            let mut n = 0usize;
            {
                let mut sb = it.by_ref().step_by(step);
                loop {
                    match win!(aw, sb.next()) {
                        Some(x) => {
                            // the items stepped over since the previous one were consumed unseen
                            if n > 0 {
                                sess.taken += step - 1;
                            }
                            yielded!(x);
                            n += 1;
                        }
                        None => break,
                    }
                }
            }
            let want = left.div_ceil(step);
            if n != want {
                violate("wrong-yield", format!("{what}: step_by({step}) over {left} remaining entries yielded {n} items instead of {want}"));
            }
            sess.taken = sess.s.len();
            sess.saw_none = true;
            if it.len() != 0 {
                violate("inexact-length", format!("{what}: len()={} after step_by ran to the end", it.len()));
            }
            Some(it)
        }
        End::AllUntil(k) => {
            cx.probe("session_end_all");
            let k = k as usize;
            let mut c = 0usize;
            let r = win!(aw, it.by_ref().all(|x| {
                env::touch(Cb::Pred, None, None);
                yielded!(x);
                c += 1;
                c <= k
            }));
            cx.dg(r as u64);
            sess.before_step(it.len(), it.size_hint());
            Some(it)
        }
    }
}
