//! Worker side of a check: generate base plans, dry-run, enumerate variants,
//! run, attribute violations, minimise, and summarise what was covered.

use crate::dispatch::run_plan;
use crate::env::{SplitMix, CB_NAMES, NCB};
use crate::exec::{op_name, RunOut};
use crate::gen::base_plan;
use crate::plan::{Op, Plan, Replay};
use crate::props::{attribute, profile, prop_no, variants};
use serde::{Deserialize, Serialize};
use std::collections::{BTreeMap, BTreeSet};

#[derive(Clone, Debug, Serialize, Deserialize, PartialEq, Eq, PartialOrd, Ord)]
pub struct Sig {
    pub property: String,
    pub rule: String,
    /// kind of the operation in which the violation was observed ("final" for the closing step)
    pub op: String,
    /// callback kind of the injected fault that had fired, or "-"
    pub callback: String,
}

#[derive(Clone, Debug, Serialize, Deserialize)]
pub struct Known {
    pub status: String,
    pub property: String,
    pub rule: String,
    pub op: String,
    pub callback: String,
    #[serde(default)]
    pub commit: String,
    pub text: String,
}

impl Known {
    pub fn matches(&self, s: &Sig) -> bool {
        self.status == "known" && self.property == s.property && self.rule == s.rule && (self.op == "*" || self.op == s.op) && (self.callback == "*" || self.callback == s.callback)
    }
}

#[derive(Clone, Debug, Serialize, Deserialize)]
pub struct Found {
    pub sig: Sig,
    pub replay: Replay,
    pub known: bool,
}

#[derive(Clone, Debug, Default, Serialize, Deserialize)]
pub struct Stats {
    pub profile: String,
    pub bases: u64,
    pub runs: u64,
    pub events: u64,
    pub objects: u64,
    pub ops: u64,
    pub cb_total: Vec<u64>,
    pub faults_armed: u64,
    pub faults_fired: u64,
    pub fired_by_kind: Vec<u64>,
    pub fired_nonempty: u64,
    pub container_panics: u64,
    pub ended: Vec<u64>,
    pub eq_total: u64,
    pub lie_changed: u64,
    pub probes: BTreeMap<String, u64>,
    pub traces: BTreeSet<u64>,
    pub traces_capped: bool,
    pub states: BTreeSet<u64>,
    pub fault_sites: BTreeSet<u64>,
    pub shapes: BTreeMap<String, u64>,
    pub op_kinds: BTreeMap<String, u64>,
    pub samples: Vec<Plan>,
    pub found: Vec<Found>,
    pub minimise_runs: u64,
    pub other_property_violations: BTreeMap<String, u64>,
}

const TRACE_CAP: usize = 400_000;

fn fnv(xs: &[u64]) -> u64 {
    let mut h = 0xcbf2_9ce4_8422_2325u64;
    for x in xs {
        for i in 0..8 {
            h ^= (x >> (i * 8)) & 0xff;
            h = h.wrapping_mul(0x0000_0100_0000_01B3);
        }
    }
    h
}

fn str_hash(s: &str) -> u64 {
    fnv(&s.bytes().map(|b| b as u64).collect::<Vec<_>>())
}

impl Stats {
    pub fn new() -> Self {
        Stats { cb_total: vec![0; NCB], fired_by_kind: vec![0; NCB], ended: vec![0; 4], profile: if cfg!(debug_assertions) { "dev".into() } else { "release".into() }, ..Default::default() }
    }

    pub fn record(&mut self, plan: &Plan, out: &RunOut) {
        self.runs += 1;
        self.events += out.events;
        self.objects += out.objects;
        self.ops += plan.ops.len() as u64;
        for i in 0..NCB {
            self.cb_total[i] += out.cb_total[i];
        }
        self.faults_armed += out.faults_armed as u64;
        self.faults_fired += out.fired.len() as u64;
        for (fi, kind, opn, lenb) in &out.fired {
            self.fired_by_kind[*kind as usize] += 1;
            if *lenb > 0 {
                self.fired_nonempty += 1;
                let f = &plan.faults[*fi];
                self.fault_sites.insert(fnv(&[str_hash(opn), *kind as u64, f.ord as u64, *lenb as u64]));
            }
        }
        self.container_panics += out.container_panics;
        for e in &out.ended {
            self.ended[*e as usize] += 1;
        }
        self.eq_total += out.eq_total;
        self.lie_changed += out.lie_changed;
        for (k, v) in &out.probes {
            *self.probes.entry((*k).to_string()).or_insert(0) += v;
        }
        if self.traces.len() < TRACE_CAP {
            self.traces.insert(out.trace);
        } else {
            self.traces_capped = true;
        }
        for s in &out.states {
            self.states.insert(*s);
        }
        *self.shapes.entry(format!("{:?}/{}/{}", plan.cfg.shape, plan.cfg.n, plan.cfg.m)).or_insert(0) += 1;
    }

    pub fn merge(&mut self, o: Stats) {
        self.bases += o.bases;
        self.runs += o.runs;
        self.events += o.events;
        self.objects += o.objects;
        self.ops += o.ops;
        for i in 0..NCB {
            self.cb_total[i] += o.cb_total[i];
            self.fired_by_kind[i] += o.fired_by_kind[i];
        }
        self.faults_armed += o.faults_armed;
        self.faults_fired += o.faults_fired;
        self.fired_nonempty += o.fired_nonempty;
        self.container_panics += o.container_panics;
        for i in 0..4 {
            self.ended[i] += o.ended[i];
        }
        self.eq_total += o.eq_total;
        self.lie_changed += o.lie_changed;
        for (k, v) in o.probes {
            *self.probes.entry(k).or_insert(0) += v;
        }
        self.traces_capped |= o.traces_capped;
        for t in o.traces {
            if self.traces.len() < 4 * TRACE_CAP {
                self.traces.insert(t);
            } else {
                self.traces_capped = true;
            }
        }
        self.states.extend(o.states);
        self.fault_sites.extend(o.fault_sites);
        for (k, v) in o.shapes {
            *self.shapes.entry(k).or_insert(0) += v;
        }
        for (k, v) in o.op_kinds {
            *self.op_kinds.entry(k).or_insert(0) += v;
        }
        if self.samples.len() < 3 {
            self.samples.extend(o.samples.into_iter().take(3 - self.samples.len()));
        }
        self.found.extend(o.found);
        self.minimise_runs += o.minimise_runs;
        for (k, v) in o.other_property_violations {
            *self.other_property_violations.entry(k).or_insert(0) += v;
        }
    }
}

pub fn sig_of(prop: &str, plan: &Plan, out: &RunOut) -> Option<(Sig, String, i32)> {
    let lying = plan.cfg.lie != crate::env::Lie::Truth || plan.cfg.lie_borrow;
    let v = out.viols.iter().find(|v| attribute(v, lying).iter().any(|p| *p == prop || *p == "*"))?;
    let op = if v.step >= 0 && (v.step as usize) < plan.ops.len() { op_name(&plan.ops[v.step as usize]) } else { "final".to_string() };
    let callback = if v.after_fault { out.fired.first().map(|f| CB_NAMES[f.1 as usize].to_string()).unwrap_or("-".into()) } else { "-".to_string() };
    Some((Sig { property: prop.to_string(), rule: v.rule.clone(), op, callback }, v.detail.clone(), v.step))
}

fn same_class(prop: &str, plan: &Plan, want: &Sig, budget: &mut u64) -> bool {
    if !crate::dispatch::supported(plan) {
        return false;
    }
    *budget += 1;
    PROGRESS.fetch_add(1, std::sync::atomic::Ordering::Relaxed);
    let out = run_plan(plan);
    matches!(sig_of(prop, plan, &out), Some((s, _, _)) if s.rule == want.rule && s.callback == want.callback)
}

fn simpler_ops(op: &Op) -> Vec<Op> {
    let mut v = Vec::new();
    let mut push = |o: Op| {
        if o != *op {
            v.push(o)
        }
    };
    match op.clone() {
        Op::Drain { t, take, end } => {
            push(Op::Drain { t, take: 0, end: crate::plan::End::Drop });
            push(Op::Drain { t, take: take / 2, end });
            push(Op::Clear { t });
        }
        Op::IntoIter { t, take, end } => {
            push(Op::IntoIter { t, take: 0, end: crate::plan::End::Drop });
            push(Op::IntoIter { t, take: take / 2, end });
            push(Op::DropNew { t, set: false, dflt: false });
        }
        Op::IntoKeys { t, take, end } => {
            push(Op::IntoKeys { t, take: 0, end: crate::plan::End::Drop });
            push(Op::IntoKeys { t, take: take / 2, end });
        }
        Op::IntoValues { t, take, end } => {
            push(Op::IntoValues { t, take: 0, end: crate::plan::End::Drop });
            push(Op::IntoValues { t, take: take / 2, end });
        }
        Op::SDrain { t, take, end } => {
            push(Op::SDrain { t, take: 0, end: crate::plan::End::Drop });
            push(Op::SDrain { t, take: take / 2, end });
        }
        Op::SIntoIter { t, take, end } => {
            push(Op::SIntoIter { t, take: 0, end: crate::plan::End::Drop });
            push(Op::SIntoIter { t, take: take / 2, end });
        }
        Op::Retain { t, keep, mutate } => {
            push(Op::Retain { t, keep: 0, mutate: false });
            push(Op::Retain { t, keep: u32::MAX, mutate: false });
            push(Op::Retain { t, keep, mutate: false });
            push(Op::Retain { t, keep: keep & 0xffff_fffe, mutate });
            push(Op::Retain { t, keep: keep | 0xffff_fffe, mutate });
        }
        Op::SRetain { t, keep } => {
            push(Op::SRetain { t, keep: 0 });
            push(Op::SRetain { t, keep: u32::MAX });
            push(Op::SRetain { t, keep: keep | 0xffff_fffe });
        }
        Op::FromIter { t, items, src } => {
            if items.len() > 1 {
                push(Op::FromIter { t, items: items[..items.len() - 1].to_vec(), src: src.clone() });
                push(Op::FromIter { t, items: items[1..].to_vec(), src: src.clone() });
            }
            push(Op::FromIter { t, items, src: crate::plan::SrcCfg { hint: 0, gap_at: None } });
        }
        Op::SFromIter { t, items, src } => {
            if items.len() > 1 {
                push(Op::SFromIter { t, items: items[..items.len() - 1].to_vec(), src: src.clone() });
                push(Op::SFromIter { t, items: items[1..].to_vec(), src: src.clone() });
            }
            push(Op::SFromIter { t, items, src: crate::plan::SrcCfg { hint: 0, gap_at: None } });
        }
        Op::SExtend { t, items, src } => {
            if items.len() > 1 {
                push(Op::SExtend { t, items: items[..items.len() - 1].to_vec(), src: src.clone() });
                push(Op::SExtend { t, items: items[1..].to_vec(), src: src.clone() });
            }
            push(Op::SExtend { t, items, src: crate::plan::SrcCfg { hint: 0, gap_at: None } });
        }
        Op::FromArr { t, items } if items.len() > 1 => push(Op::FromArr { t, items: items[..items.len() - 1].to_vec() }),
        Op::SFromArr { t, items } if items.len() > 1 => push(Op::SFromArr { t, items: items[..items.len() - 1].to_vec() }),
        Op::Disjoint { t, cs, f } if !cs.is_empty() => {
            push(Op::Disjoint { t, cs: cs[..cs.len() - 1].to_vec(), f });
            push(Op::Disjoint { t, cs: cs[1..].to_vec(), f });
        }
        Op::Iter { t, kind, take, clone_at, fin, .. } => {
            push(Op::Iter { t, kind, take: take / 2, clone_at: None, dbg_at: None, fin });
            push(Op::Iter { t, kind, take, clone_at: None, dbg_at: None, fin });
            push(Op::Iter { t, kind, take, clone_at, dbg_at: None, fin: 0 });
        }
        Op::Fill { t, set } => {
            push(if set { Op::SInsert { t, c: 0 } } else { Op::Insert { t, c: 0 } });
        }
        _ => {}
    }
    v
}

/// Delta-debugs a violating plan while the same violation class (rule, fault callback kind) persists.
pub fn minimise(prop: &str, plan: &Plan, want: &Sig, runs: &mut u64) -> Plan {
    let mut best = plan.clone();
    let limit = *runs + 3000;
    let mut changed = true;
    while changed && *runs < limit {
        changed = false;
        // drop operations (from the back, so that indices of earlier faults stay valid longer)
        let mut i = best.ops.len();
        while i > 0 && *runs < limit {
            i -= 1;
            if best.faults.iter().any(|f| f.op == i) {
                continue;
            }
            let mut c = best.clone();
            c.ops.remove(i);
            for f in c.faults.iter_mut() {
                if f.op > i {
                    f.op -= 1;
                }
            }
            if same_class(prop, &c, want, runs) {
                best = c;
                changed = true;
            }
        }
        // drop faults
        let mut j = best.faults.len();
        while j > 0 && best.faults.len() > 1 && *runs < limit {
            j -= 1;
            let mut c = best.clone();
            c.faults.remove(j);
            if same_class(prop, &c, want, runs) {
                best = c;
                changed = true;
            }
        }
        // earlier fault position within the same operation
        for j in 0..best.faults.len() {
            let mut ord = best.faults[j].ord;
            while ord > 1 && *runs < limit {
                ord -= 1;
                let mut c = best.clone();
                c.faults[j].ord = ord;
                if same_class(prop, &c, want, runs) {
                    best = c;
                    changed = true;
                } else {
                    break;
                }
            }
        }
        // simpler operations
        for i in 0..best.ops.len() {
            for s in simpler_ops(&best.ops[i]) {
                if *runs >= limit {
                    break;
                }
                let mut c = best.clone();
                c.ops[i] = s;
                if same_class(prop, &c, want, runs) {
                    best = c;
                    changed = true;
                    break;
                }
            }
        }
        // truthful equality, if the lie is not needed
        if best.cfg.lie != crate::env::Lie::Truth && *runs < limit {
            for l in [crate::env::Lie::Truth, crate::env::Lie::AlwaysTrue, crate::env::Lie::AlwaysFalse] {
                let mut c = best.clone();
                if c.cfg.lie == l {
                    continue;
                }
                c.cfg.lie = l;
                if same_class(prop, &c, want, runs) {
                    best = c;
                    changed = true;
                    break;
                }
            }
        }
        if best.cfg.lie_borrow && *runs < limit {
            let mut c = best.clone();
            c.cfg.lie_borrow = false;
            if same_class(prop, &c, want, runs) {
                best = c;
                changed = true;
            }
        }
        // a smaller capacity pair / simpler shape from the menu
        for (s, n, m) in crate::gen::MENU.iter() {
            if *runs >= limit {
                break;
            }
            let smaller = (*s == best.cfg.shape && (*n < best.cfg.n || (*n == best.cfg.n && *m < best.cfg.m))) || (*s == crate::plan::Shape::Small && best.cfg.shape != crate::plan::Shape::Small && *n <= best.cfg.n && *m <= best.cfg.m);
            if !smaller {
                continue;
            }
            let mut c = best.clone();
            c.cfg.shape = *s;
            c.cfg.n = *n;
            c.cfg.m = *m;
            if same_class(prop, &c, want, runs) {
                best = c;
                changed = true;
                break;
            }
        }
    }
    best
}

/// Progress of the worker, read by the hang monitor thread: a run that makes no progress for
/// `HANG_SECS` of wall-clock time is a non-terminating operation (a loop inside the code under
/// test that makes no callback escapes the callback watchdog).
pub static PROGRESS: std::sync::atomic::AtomicU64 = std::sync::atomic::AtomicU64::new(0);
pub static CUR_IDX: std::sync::atomic::AtomicU64 = std::sync::atomic::AtomicU64::new(0);
/// -1 = the fault-free dry run of the base plan, otherwise the index of the variant
pub static CUR_VAR: std::sync::atomic::AtomicI64 = std::sync::atomic::AtomicI64::new(-1);
pub const HANG_SECS: u64 = 30;

/// Starts the monitor thread. When the main thread stops making progress it calls `on_hang(idx, var)`
/// and ends the process with status 3.
pub fn start_hang_monitor(on_hang: impl Fn(u64, i64) + Send + 'static) {
    use std::sync::atomic::Ordering::Relaxed;
    std::thread::spawn(move || {
        let mut last = PROGRESS.load(Relaxed);
        let mut stale = 0u64;
        loop {
            std::thread::sleep(std::time::Duration::from_millis(500));
            let p = PROGRESS.load(Relaxed);
            if p == last {
                stale += 1;
            } else {
                stale = 0;
                last = p;
            }
            if stale >= 2 * HANG_SECS {
                on_hang(CUR_IDX.load(Relaxed), CUR_VAR.load(Relaxed));
                std::process::exit(3);
            }
        }
    });
}

pub struct WorkerArgs {
    pub prop: String,
    pub thorough: bool,
    pub seed: u64,
    pub from: u64,
    pub to: u64,
    pub stride: u64,
    pub known: Vec<Known>,
    /// write the plan about to run into this file (crash isolation mode)
    pub cur_file: Option<String>,
    pub max_found: usize,
    /// sensitivity sweeps only: stop as soon as any worker of the check has found a violation
    pub stop_file: Option<String>,
}

pub fn worker(a: &WorkerArgs) -> Stats {
    let mut st = Stats::new();
    let prof = profile(&a.prop);
    let pn = prop_no(&a.prop);
    let tier = if a.thorough { "thorough" } else { "quick" };
    let mut idx = a.from;
    let mut seen: BTreeSet<Sig> = BTreeSet::new();
    let mut since_poll = 0u32;
    while idx < a.to {
        if let Some(sf) = &a.stop_file {
            since_poll += 1;
            if since_poll >= 16 {
                since_poll = 0;
                if std::path::Path::new(sf).exists() {
                    break;
                }
            }
        }
        let base = base_plan(a.seed, pn, idx, &prof);
        st.bases += 1;
        for op in &base.ops {
            *st.op_kinds.entry(op_name(op)).or_insert(0) += 1;
        }
        if let Some(f) = &a.cur_file {
            let _ = std::fs::write(f, serde_json::to_string(&base).unwrap());
        }
        CUR_IDX.store(idx, std::sync::atomic::Ordering::Relaxed);
        CUR_VAR.store(-1, std::sync::atomic::Ordering::Relaxed);
        PROGRESS.fetch_add(1, std::sync::atomic::Ordering::Relaxed);
        let dry = run_plan(&base);
        PROGRESS.fetch_add(1, std::sync::atomic::Ordering::Relaxed);
        let mut vr = SplitMix(crate::env::mix(a.seed ^ 0xABCD, pn, idx));
        let vars = variants(&a.prop, &base, &dry, &mut vr, a.thorough);
        if st.samples.len() < 2 && !vars.is_empty() && idx % 7 == 0 {
            st.samples.push(vars[vars.len() / 2].clone());
        }
        let mut handle = |plan: &Plan, out: &RunOut, st: &mut Stats| {
            st.record(plan, out);
            let lying = plan.cfg.lie != crate::env::Lie::Truth || plan.cfg.lie_borrow;
            for v in &out.viols {
                for p in attribute(v, lying) {
                    if p != a.prop && p != "*" {
                        *st.other_property_violations.entry(format!("{p}:{}", v.rule)).or_insert(0) += 1;
                    }
                }
            }
            if let Some((sig, _, _)) = sig_of(&a.prop, plan, out) {
                if seen.contains(&sig) || st.found.len() >= a.max_found {
                    return;
                }
                seen.insert(sig.clone());
                let mut runs = 0u64;
                let min = minimise(&a.prop, plan, &sig, &mut runs);
                st.minimise_runs += runs;
                let mo = run_plan(&min);
                let (msig, detail, step) = sig_of(&a.prop, &min, &mo).unwrap_or((sig.clone(), String::new(), -1));
                let known = a.known.iter().any(|k| k.matches(&msig));
                st.found.push(Found {
                    sig: msig.clone(),
                    replay: Replay { property: a.prop.clone(), rule: msig.rule.clone(), step, detail, seed: a.seed, run: idx, tier: tier.into(), profile: st.profile.clone(), plan: min, original_ops: plan.ops.len(), original_faults: plan.faults.len() },
                    known,
                });
                seen.insert(msig);
            }
        };
        // the dry run itself is an evaluation (fault-free configuration)
        let base_is_variant = vars.first() == Some(&base);
        if base_is_variant {
            handle(&base, &dry, &mut st);
        } else {
            st.record(&base, &dry);
        }
        for (vi, v) in vars.iter().enumerate() {
            if base_is_variant && vi == 0 {
                continue;
            }
            if let Some(f) = &a.cur_file {
                let _ = std::fs::write(f, serde_json::to_string(v).unwrap());
            }
            CUR_VAR.store(vi as i64, std::sync::atomic::Ordering::Relaxed);
            PROGRESS.fetch_add(1, std::sync::atomic::Ordering::Relaxed);
            let out = run_plan(v);
            PROGRESS.fetch_add(1, std::sync::atomic::Ordering::Relaxed);
            handle(v, &out, &mut st);
        }
        if let Some(sf) = &a.stop_file {
            if st.found.iter().any(|f| !f.known) {
                let _ = std::fs::write(sf, "found");
                break;
            }
        }
        idx += a.stride;
    }
    st
}
