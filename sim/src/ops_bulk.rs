//! Bulk construction from a caller-supplied source stream (C16) and the
//! overflow entry points (C03).

use crate::env::{self, Cb, Injected, Watchdog};
use crate::ops_map::win;
use crate::payload::{SimK, SimV};
use crate::plan::{SrcCfg, Via};
use crate::world::{observing, snap_map, snap_set, violate, Cx, Snap};
use micromap::{Map, Set};
use std::panic::{catch_unwind, resume_unwind, AssertUnwindSafe};

/// The scripted source iterator. Items it has not handed over stay with the harness.
pub struct Src<'a, I> {
    pub items: &'a mut Vec<Option<I>>,
    pub pos: usize,
    pub cfg: SrcCfg,
    pub gapped: bool,
    pub cap: usize,
    /// positions pulled, in order; usize::MAX marks a `None`
    pub log: &'a mut Vec<usize>,
}

impl<I> Iterator for Src<'_, I> {
    type Item = I;
    fn next(&mut self) -> Option<I> {
        env::touch(Cb::SrcNext, None, None);
        if self.cfg.gap_at == Some(self.pos as u8) && !self.gapped {
            self.gapped = true;
            let _p = crate::alloc::Pause::new();
            self.log.push(usize::MAX);
            return None;
        }
        if self.pos >= self.items.len() {
            let _p = crate::alloc::Pause::new();
            self.log.push(usize::MAX);
            return None;
        }
        let it = self.items[self.pos].take();
        {
            let _p = crate::alloc::Pause::new();
            self.log.push(self.pos);
        }
        self.pos += 1;
        it
    }
    fn size_hint(&self) -> (usize, Option<usize>) {
        env::touch(Cb::SrcHint, None, None);
        let rem = self.items.len().saturating_sub(self.pos);
        match self.cfg.hint {
            // correct hints, from exact to useless
            0 => (rem, Some(rem)),
            1 => (0, None),
            2 => (0, Some(usize::MAX)),
            3 => (rem, None),
            4 => (rem / 2, Some(rem * 2 + 5)),
            // incorrect hints (a buggy source): only memory safety may be expected then
            5 => (usize::MAX, None),
            6 => (self.cap * 1000 + 77, None),
            _ => (0, Some(0)),
        }
    }
}

/// The prefix of the script that a front-to-back consumer sees before the first `None`.
pub fn visible_len(n: usize, cfg: &SrcCfg) -> usize {
    match cfg.gap_at {
        Some(g) if (g as usize) < n => g as usize,
        _ => n,
    }
}

fn distinct(classes: &[u32]) -> usize {
    let mut v: Vec<u32> = classes.to_vec();
    v.sort_unstable();
    v.dedup();
    v.len()
}

fn is_sim_panic(p: &Box<dyn std::any::Any + Send>) -> bool {
    p.is::<Injected>() || p.is::<Watchdog>()
}

/// (class, key tag, value payload) of every entry: the comparison key of the C16 differential.
fn content(s: &Snap, anon_k: bool, anon_v: bool, with_v: bool) -> Vec<(u32, u32, u64)> {
    let mut v: Vec<(u32, u32, u64)> =
        s.iter().map(|e| (if anon_k { 0 } else { e.kclass }, if anon_k { 0 } else { e.ktag }, if anon_v || !with_v { 0 } else { e.vpay })).collect();
    v.sort_unstable();
    v
}

fn check_pulls(what: &str, log: &[usize], vis: usize, total: usize, panicked: bool) {
    let mut expect = 0usize;
    let mut nones = 0;
    for p in log {
        if *p == usize::MAX {
            nones += 1;
            continue;
        }
        if nones > 0 {
            // the source had ended: polling it again is harmless only as long as it keeps answering
            // `None`; an item pulled now is taken away from the caller, who may go on using the source
            violate("pull-log", format!("{what}: the source was polled again after it had ended and item {p} was pulled from it"));
            return;
        }
        if *p != expect {
            violate("pull-log", format!("{what}: source pulled out of order (position {p}, expected {expect})"));
            return;
        }
        expect += 1;
    }
    // whether the consumer also polls for the terminating `None` is its own business
    let _ = nones;
    if !panicked && expect != vis.min(total) {
        violate("pull-log", format!("{what}: source not consumed front to back exactly once ({expect} of {vis} items pulled, {nones} end markers seen)"));
    }
}

/// `Map::from_iter` over a scripted source, compared with one-by-one insertion on the real type.
pub fn map_from_iter<K: SimK, V: SimV, const C: usize>(m: &mut Map<K, V, C>, cx: &mut Cx<K, V>, classes: &[u32], src: &SrcCfg, what: &'static str) {
    let aw = cx.cfg.alloc_window;
    let t0 = cx.tagctr + 1;
    cx.tagctr += classes.len() as u32 + 1;
    let mut items: Vec<Option<(K, V)>> = classes.iter().enumerate().map(|(i, c)| Some((K::make(*c, t0 + i as u32), V::make(2000 + (t0 as u64 + i as u64), t0 + i as u32)))).collect();
    let mut log = Vec::new();
    let vis = visible_len(classes.len(), src);
    if distinct(&classes[..vis]) > C {
        cx.probe("collect_more_distinct_than_capacity");
    }
    if vis > C && distinct(&classes[..vis]) <= C && !K::ANON {
        cx.probe("collect_long_stream_few_distinct");
    }
    let r = {
        let s = Src { items: &mut items, pos: 0, cfg: src.clone(), gapped: false, cap: C, log: &mut log };
        catch_unwind(AssertUnwindSafe(|| win!(aw, s.collect::<Map<K, V, C>>())))
    };
    crate::alloc::arm(false);
    // whatever the source still holds goes back to the harness
    for it in items.drain(..).flatten() {
        cx.pocket_k.push(it.0);
        cx.pocket_v.push(it.1);
    }
    if let Err(p) = &r {
        if is_sim_panic(p) {
            resume_unwind(r.err().unwrap());
        }
    }
    let panicked = r.is_err();
    if src.hint <= 4 {
        check_pulls(what, &log, vis, classes.len(), panicked);
    }
    if !cx.lying && src.hint <= 4 {
        // the reference: a fresh container of the same type, fed the same logical items one by one
        let refr = observing(|| {
            catch_unwind(AssertUnwindSafe(|| {
                let mut rm: Map<K, V, C> = Map::new();
                for (i, c) in classes[..vis].iter().enumerate() {
                    rm.insert(K::make(*c, t0 + i as u32), V::make(2000 + (t0 as u64 + i as u64), t0 + i as u32));
                }
                rm
            }))
        });
        match (&r, &refr) {
            (Ok(b), Ok(rm)) => {
                let (cb, cr) = (content(&snap_map(b), K::ANON, V::ANON, true), content(&snap_map(rm), K::ANON, V::ANON, true));
                if cb != cr || b.len() != rm.len() {
                    violate("differs-from-one-by-one", format!("{what}: bulk construction gives (class, key tag, value) {cb:?} but inserting the items one by one gives {cr:?}"));
                }
            }
            (Err(_), Ok(_)) => violate("capacity-misjudged", format!("{what}: bulk construction panicked although inserting the {vis} items ({} distinct keys) one by one fits into capacity {C}", distinct(&classes[..vis]))),
            (Ok(_), Err(_)) => violate("capacity-misjudged", format!("{what}: bulk construction returned although inserting the items one by one overflows capacity {C}")),
            (Err(_), Err(_)) => {}
        }
        observing(|| drop(refr));
    }
    match r {
        Ok(b) => {
            let old = std::mem::replace(m, b);
            win!(aw, drop(old));
        }
        Err(p) => resume_unwind(p),
    }
}

/// `Map::from([(K, V); C])`: the stream is padded / truncated to exactly C items.
pub fn map_from_arr<K: SimK, V: SimV, const C: usize>(m: &mut Map<K, V, C>, cx: &mut Cx<K, V>, classes: &[u32]) {
    let aw = cx.cfg.alloc_window;
    let t0 = cx.tagctr + 1;
    cx.tagctr += C as u32 + 1;
    let cls: Vec<u32> = (0..C).map(|i| if classes.is_empty() { i as u32 } else { classes[i % classes.len()] }).collect();
    let arr: [(K, V); C] = core::array::from_fn(|i| (K::make(cls[i], t0 + i as u32), V::make(2000 + (t0 as u64 + i as u64), t0 + i as u32)));
    let b: Map<K, V, C> = win!(aw, Map::from(arr));
    if !cx.lying {
        let rm = observing(|| {
            let mut rm: Map<K, V, C> = Map::new();
            for (i, c) in cls.iter().enumerate() {
                rm.insert(K::make(*c, t0 + i as u32), V::make(2000 + (t0 as u64 + i as u64), t0 + i as u32));
            }
            rm
        });
        let (cb, cr) = (content(&snap_map(&b), K::ANON, V::ANON, true), content(&snap_map(&rm), K::ANON, V::ANON, true));
        if cb != cr || b.len() != rm.len() {
            violate("differs-from-one-by-one", format!("Map::from(array): gives {cb:?} but inserting the items one by one gives {cr:?}"));
        }
        observing(|| drop(rm));
    }
    let old = std::mem::replace(m, b);
    win!(aw, drop(old));
}

pub fn set_from_iter<K: SimK, V: SimV, const C: usize>(s: &mut Set<K, C>, cx: &mut Cx<K, V>, classes: &[u32], src: &SrcCfg, what: &'static str) {
    let aw = cx.cfg.alloc_window;
    let t0 = cx.tagctr + 1;
    cx.tagctr += classes.len() as u32 + 1;
    let mut items: Vec<Option<K>> = classes.iter().enumerate().map(|(i, c)| Some(K::make(*c, t0 + i as u32))).collect();
    let mut log = Vec::new();
    let vis = visible_len(classes.len(), src);
    if distinct(&classes[..vis]) > C {
        cx.probe("set_collect_more_distinct_than_capacity");
    }
    let r = {
        let it = Src { items: &mut items, pos: 0, cfg: src.clone(), gapped: false, cap: C, log: &mut log };
        catch_unwind(AssertUnwindSafe(|| win!(aw, it.collect::<Set<K, C>>())))
    };
    crate::alloc::arm(false);
    for it in items.drain(..).flatten() {
        cx.pocket_k.push(it);
    }
    if let Err(p) = &r {
        if is_sim_panic(p) {
            resume_unwind(r.err().unwrap());
        }
    }
    if src.hint <= 4 {
        check_pulls(what, &log, vis, classes.len(), r.is_err());
    }
    if !cx.lying && src.hint <= 4 {
        let refr = observing(|| {
            catch_unwind(AssertUnwindSafe(|| {
                let mut rs: Set<K, C> = Set::new();
                for (i, c) in classes[..vis].iter().enumerate() {
                    rs.insert(K::make(*c, t0 + i as u32));
                }
                rs
            }))
        });
        match (&r, &refr) {
            (Ok(b), Ok(rs)) => {
                let (cb, cr) = (content(&snap_set(b), K::ANON, true, false), content(&snap_set(rs), K::ANON, true, false));
                if cb != cr || b.len() != rs.len() {
                    violate("differs-from-one-by-one", format!("{what}: bulk construction gives (class, key tag) {cb:?} but inserting the items one by one gives {cr:?}"));
                }
            }
            (Err(_), Ok(_)) => violate("capacity-misjudged", format!("{what}: bulk construction panicked although inserting the {vis} items one by one fits into capacity {C}")),
            (Ok(_), Err(_)) => violate("capacity-misjudged", format!("{what}: bulk construction returned although inserting the items one by one overflows capacity {C}")),
            (Err(_), Err(_)) => {}
        }
        observing(|| drop(refr));
    }
    match r {
        Ok(b) => {
            let old = std::mem::replace(s, b);
            win!(aw, drop(old));
        }
        Err(p) => resume_unwind(p),
    }
}

pub fn set_from_arr<K: SimK, V: SimV, const C: usize>(s: &mut Set<K, C>, cx: &mut Cx<K, V>, classes: &[u32]) {
    let aw = cx.cfg.alloc_window;
    let t0 = cx.tagctr + 1;
    cx.tagctr += C as u32 + 1;
    let cls: Vec<u32> = (0..C).map(|i| if classes.is_empty() { i as u32 } else { classes[i % classes.len()] }).collect();
    let arr: [K; C] = core::array::from_fn(|i| K::make(cls[i], t0 + i as u32));
    let b: Set<K, C> = win!(aw, Set::from(arr));
    if !cx.lying {
        let rs = observing(|| {
            let mut rs: Set<K, C> = Set::new();
            for (i, c) in cls.iter().enumerate() {
                rs.insert(K::make(*c, t0 + i as u32));
            }
            rs
        });
        let (cb, cr) = (content(&snap_set(&b), K::ANON, true, false), content(&snap_set(&rs), K::ANON, true, false));
        if cb != cr || b.len() != rs.len() {
            violate("differs-from-one-by-one", format!("Set::from(array): gives {cb:?} but inserting the items one by one gives {cr:?}"));
        }
        observing(|| drop(rs));
    }
    let old = std::mem::replace(s, b);
    win!(aw, drop(old));
}

/// `Set::extend` over a scripted source, compared with one-by-one insertion into a copy of the prior state.
pub fn set_extend<K: SimK, V: SimV, const C: usize>(s: &mut Set<K, C>, cx: &mut Cx<K, V>, classes: &[u32], src: &SrcCfg, pre: &Snap) {
    let aw = cx.cfg.alloc_window;
    let t0 = cx.tagctr + 1;
    cx.tagctr += classes.len() as u32 + 1;
    let mut items: Vec<Option<K>> = classes.iter().enumerate().map(|(i, c)| Some(K::make(*c, t0 + i as u32))).collect();
    let mut log = Vec::new();
    let vis = visible_len(classes.len(), src);
    let r = {
        let it = Src { items: &mut items, pos: 0, cfg: src.clone(), gapped: false, cap: C, log: &mut log };
        catch_unwind(AssertUnwindSafe(|| win!(aw, s.extend(it))))
    };
    crate::alloc::arm(false);
    for it in items.drain(..).flatten() {
        cx.pocket_k.push(it);
    }
    if let Err(p) = &r {
        if is_sim_panic(p) {
            resume_unwind(r.err().unwrap());
        }
    }
    if src.hint <= 4 {
        check_pulls("Set::extend", &log, vis, classes.len(), r.is_err());
    } else {
        cx.probe("source_with_incorrect_size_hint");
    }
    if r.is_err() {
        cx.probe("extend_overflowed_mid_stream");
    }
    if !cx.lying && src.hint <= 4 {
        let refr = observing(|| {
            let mut rs: Set<K, C> = Set::new();
            for e in pre {
                rs.insert(K::make(e.kclass, e.ktag));
            }
            let res = catch_unwind(AssertUnwindSafe(|| {
                for (i, c) in classes[..vis].iter().enumerate() {
                    rs.insert(K::make(*c, t0 + i as u32));
                }
            }));
            (rs, res.is_ok())
        });
        let (cb, cr) = (content(&snap_set(s), K::ANON, true, false), content(&snap_set(&refr.0), K::ANON, true, false));
        match (r.is_ok(), refr.1) {
            (true, true) | (false, false) => {
                if cb != cr {
                    violate("differs-from-one-by-one", format!("Set::extend: gives (class, key tag) {cb:?} but inserting the items one by one gives {cr:?}"));
                }
            }
            (false, true) => violate("capacity-misjudged", format!("Set::extend panicked although inserting the items one by one fits into capacity {C}")),
            (true, false) => violate("capacity-misjudged", format!("Set::extend returned although inserting the items one by one overflows capacity {C}")),
        }
        observing(|| drop(refr));
    }
    if let Err(p) = r {
        resume_unwind(p);
    }
}

/// `Extend<&T>` for `T: Copy`: a set of plain `Copy` keys seeded with the classes of the snapshot is
/// extended by reference from a scripted source and compared with one-by-one insertion by value.
pub fn set_extend_ref<K: SimK, V: SimV, const C: usize>(cx: &mut Cx<K, V>, classes: &[u32], src: &SrcCfg, pre: &Snap) {
    use crate::payload::CKey;
    let aw = cx.cfg.alloc_window;
    cx.probe("extend_by_reference");
    let t0 = cx.tagctr + 1;
    cx.tagctr += classes.len() as u32 + 1;
    let seed = |s: &mut Set<CKey, C>| {
        for e in pre {
            s.insert(CKey::new(e.kclass, e.ktag));
        }
    };
    let cont = |s: &Set<CKey, C>| {
        let mut v: Vec<(u32, u32)> = s.iter().map(|k| (k.class, k.tag)).collect();
        v.sort_unstable();
        v
    };
    let mut slot = crate::world::Slot::new(Set::<CKey, C>::new());
    observing(|| seed(&mut slot.g.val));
    let store: Vec<CKey> = classes.iter().enumerate().map(|(i, c)| CKey::new(*c, t0 + i as u32)).collect();
    let mut items: Vec<Option<&CKey>> = store.iter().map(Some).collect();
    let mut log = Vec::new();
    let vis = visible_len(classes.len(), src);
    let r = {
        let it = Src { items: &mut items, pos: 0, cfg: src.clone(), gapped: false, cap: C, log: &mut log };
        let target = &mut slot.g.val;
        catch_unwind(AssertUnwindSafe(|| win!(aw, target.extend(it))))
    };
    crate::alloc::arm(false);
    if let Err(p) = &r {
        if is_sim_panic(p) {
            resume_unwind(r.err().unwrap());
        }
    }
    if !slot.canaries_ok() {
        violate("canary", "Set::extend(by reference): a guard word next to the set changed".into());
    }
    let (len, n) = (slot.g.val.len(), observing(|| slot.g.val.iter().take(C + 4).count()));
    if len != n || len > C {
        violate("len-vs-iteration", format!("Set::extend(by reference): len()={len}, iteration yields {n}, capacity {C}"));
    }
    if src.hint <= 4 {
        check_pulls("Set::extend(by reference)", &log, vis, classes.len(), r.is_err());
    }
    if !cx.lying && src.hint <= 4 {
        let (rs, ref_ok) = observing(|| {
            let mut rs: Set<CKey, C> = Set::new();
            seed(&mut rs);
            let res = catch_unwind(AssertUnwindSafe(|| {
                for k in &store[..vis] {
                    rs.insert(*k);
                }
            }));
            (rs, res.is_ok())
        });
        let (cb, cr) = observing(|| (cont(&slot.g.val), cont(&rs)));
        match (r.is_ok(), ref_ok) {
            (true, true) | (false, false) => {
                if cb != cr {
                    violate("differs-from-one-by-one", format!("Set::extend(by reference): gives (class, key tag) {cb:?} but inserting the items one by one gives {cr:?}"));
                }
            }
            (false, true) => violate("capacity-misjudged", format!("Set::extend(by reference) panicked although inserting the items one by one fits into capacity {C}")),
            (true, false) => {
                violate("capacity-misjudged", format!("Set::extend(by reference) returned although inserting the items one by one overflows capacity {C}"));
                violate("no-panic-on-overflow", format!("Set::extend(by reference) past capacity {C} returned normally"));
            }
        }
    }
    if let Err(p) = r {
        resume_unwind(p);
    }
}

/// One container's consuming iterator or drain is the source of another container's bulk
/// construction (`extend` is `for_each`-based, `collect` is `next`-based). The keys are projected
/// (class / 2) so that they collide. The reference is one-by-one insertion of the projected keys in the
/// order in which an observationally identical twin of the source hands them out through `next()`.
#[allow(clippy::too_many_arguments)]
pub fn transfer<K: SimK, V: SimV, const C1: usize, const C2: usize>(src_map: &mut Map<K, V, C1>, src_set: &mut Set<K, C1>, dst: &mut Set<K, C2>, cx: &mut Cx<K, V>, how: u8, pre_map: &Snap, pre_set: &Snap, pre_dst: &Snap) {
    let aw = cx.cfg.alloc_window;
    cx.probe("transfer_between_containers");
    // mode: 0 extend(map.drain())   1 collect(map.into_iter())   2 extend(set.drain())
    //       3 extend(set.into_iter())   4 extend(map.into_iter())   5 collect(map.drain())
    let how = how % 6;
    let from_map = matches!(how, 0 | 1 | 4 | 5);
    let by_drain = matches!(how, 0 | 2 | 5);
    let replaces_dst = matches!(how, 1 | 5);
    // the twin's next()-order, as (class, tag) of the keys
    let order: Option<Vec<(u32, u32)>> = observing(|| {
        catch_unwind(AssertUnwindSafe(|| {
            let ct = |k: &K| {
                let p = k.peek();
                (p.class, p.tag)
            };
            if from_map {
                let mut twin = src_map.clone();
                let ts = snap_map(&twin);
                if ts.len() != pre_map.len() || ts.iter().zip(pre_map.iter()).any(|(a, b)| a.kclass != b.kclass || a.ktag != b.ktag) {
                    return None;
                }
                Some(if by_drain {
                    let v = twin.drain().map(|(k, _)| ct(&k)).collect();
                    drop(twin);
                    v
                } else {
                    twin.into_iter().map(|(k, _)| ct(&k)).collect()
                })
            } else {
                let mut twin = src_set.clone();
                let ts = snap_set(&twin);
                if ts.len() != pre_set.len() || ts.iter().zip(pre_set.iter()).any(|(a, b)| a.kclass != b.kclass || a.ktag != b.ktag) {
                    return None;
                }
                Some(if by_drain {
                    let v = twin.drain().map(|k| ct(&k)).collect();
                    drop(twin);
                    v
                } else {
                    twin.into_iter().map(|k| ct(&k)).collect()
                })
            }
        }))
        .ok()
        .flatten()
    });
    let proj = |k: K| -> K {
        let p = k.peek();
        let _p = crate::alloc::Pause::new();
        K::make(p.class / 2, p.tag)
    };
    let r = catch_unwind(AssertUnwindSafe(|| match how {
        0 => win!(aw, dst.extend(src_map.drain().map(|(k, _)| proj(k)))),
        1 => {
            let owned = std::mem::replace(src_map, Map::new());
            let b: Set<K, C2> = win!(aw, owned.into_iter().map(|(k, _)| proj(k)).collect());
            let old = std::mem::replace(dst, b);
            win!(aw, drop(old));
        }
        2 => win!(aw, dst.extend(src_set.drain().map(proj))),
        3 => {
            let owned = std::mem::replace(src_set, Set::new());
            win!(aw, dst.extend(owned.into_iter().map(proj)));
        }
        4 => {
            let owned = std::mem::replace(src_map, Map::new());
            win!(aw, dst.extend(owned.into_iter().map(|(k, _)| proj(k))));
        }
        _ => {
            let b: Set<K, C2> = win!(aw, src_map.drain().map(|(k, _)| proj(k)).collect());
            let old = std::mem::replace(dst, b);
            win!(aw, drop(old));
        }
    }));
    crate::alloc::arm(false);
    if let Err(p) = &r {
        if is_sim_panic(p) {
            resume_unwind(r.err().unwrap());
        }
    }
    if let (Some(order), false, false) = (order, cx.lying, K::ANON) {
        let (rs, ref_ok) = observing(|| {
            let mut rs: Set<K, C2> = Set::new();
            if !replaces_dst {
                for e in pre_dst {
                    rs.insert(K::make(e.kclass, e.ktag));
                }
            }
            let res = catch_unwind(AssertUnwindSafe(|| {
                for (c, t) in &order {
                    rs.insert(K::make(c / 2, *t));
                }
            }));
            (rs, res.is_ok())
        });
        let (cb, cr) = (content(&snap_set(dst), false, true, false), content(&snap_set(&rs), false, true, false));
        match (r.is_ok(), ref_ok) {
            (true, true) => {
                if cb != cr {
                    violate("differs-from-one-by-one", format!("bulk construction from another container's consuming iterator (mode {how}) gives (class, key tag) {cb:?} but inserting the items one by one in next() order gives {cr:?}"));
                }
            }
            (false, true) => violate("capacity-misjudged", format!("bulk construction from another container's iterator (mode {how}) panicked although inserting the items one by one fits into capacity {C2}")),
            (true, false) => violate("capacity-misjudged", format!("bulk construction from another container's iterator (mode {how}) returned although inserting the items one by one overflows capacity {C2}")),
            (false, false) => {}
        }
        observing(|| drop(rs));
    }
    if let Err(p) = r {
        resume_unwind(p);
    }
}

/// The smallest class that no entry of the snapshot carries.
pub fn absent_class(s: &Snap) -> u32 {
    let mut c = 0;
    while s.iter().any(|e| e.kclass == c) {
        c += 1;
    }
    c
}

/// Classes for a stream that must overflow a container with prior contents `s` and capacity `cap`:
/// first up to two present classes (replacements are fine), then enough absent ones.
pub fn overflow_stream(s: &Snap, cap: usize, from_empty: bool) -> Vec<u32> {
    let mut v: Vec<u32> = Vec::new();
    let have: Vec<u32> = if from_empty { Vec::new() } else { s.iter().map(|e| e.kclass).collect() };
    for c in have.iter().take(2) {
        v.push(*c);
    }
    let mut c = 0u32;
    let mut added = 0;
    while have.len() + added <= cap {
        if !have.contains(&c) {
            v.push(c);
            if added % 2 == 1 {
                v.push(c); // repeats do not consume capacity
            }
            added += 1;
        }
        c += 1;
    }
    v
}

pub fn is_set_via(v: Via) -> bool {
    matches!(v, Via::SetInsert | Via::SetReplace | Via::SetCollect | Via::SetFromArr | Via::SetExtend)
}
