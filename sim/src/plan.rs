//! A `Plan` is the complete, explicit description of one simulated run: the
//! configuration, the operation sequence and the fault sequence. It is derived
//! from one integer before anything executes, it is what gets minimised, and
//! its JSON form is the replay file.

use crate::env::{Fault, Lie};
use serde::{Deserialize, Serialize};

#[derive(Clone, Copy, Debug, Serialize, Deserialize, PartialEq, Eq, PartialOrd, Ord)]
pub enum Shape {
    /// two-word key, three-word value
    Small,
    /// ~128-byte key and value
    Large,
    /// key and value own a heap block each
    Boxed,
    /// zero-sized key (value small)
    ZstKey,
    /// zero-sized value with a destructor (key small)
    ZstVal,
    /// zero-sized key and zero-sized value: the whole pair is zero-sized
    ZstBoth,
    /// key without drop glue (needs_drop is false), value tracked
    PlainKey,
    /// value without drop glue, key tracked
    PlainVal,
    /// neither key nor value has drop glue: `needs_drop::<(K, V)>()` is false
    PlainBoth,
    /// key and value aligned to 64 bytes (padding inside every slot)
    Aligned,
}



/// Which container of the pair an operation addresses (A has capacity N, B has capacity M).
#[derive(Clone, Copy, Debug, Serialize, Deserialize, PartialEq, Eq)]
pub enum T {
    A,
    B,
}

/// Lookup by the key itself or by its borrowed form.
#[derive(Clone, Copy, Debug, Serialize, Deserialize, PartialEq, Eq)]
pub enum Form {
    Own,
    Bor,
}

/// How the holder of an iterator / drain / entry lets go of it.
#[derive(Clone, Copy, Debug, Serialize, Deserialize, PartialEq, Eq)]
pub enum End {
    /// call next() until None, then three more times
    Exhaust,
    Drop,
    Forget,
    /// the provided Iterator methods a maintainer may override, applied to what is left
    Fold,
    ForEach,
    Count,
    Last,
    /// nth(k), then drop
    Nth(u8),
    /// find the k-th remaining item with find(), then drop
    Find(u8),
    /// by_ref().step_by(k + 1) to the end
    StepBy(u8),
    /// by_ref().skip(k).next(), then drop
    Skip(u8),
    /// min_by_key over the object identities (uses fold/reduce internally)
    MinBy,
    /// partition into two counters via `partition`-like fold: by_ref().all(..) stopping at item k
    AllUntil(u8),
}

#[derive(Clone, Copy, Debug, Serialize, Deserialize, PartialEq, Eq)]
pub enum IterKind {
    Iter,
    IterMut,
    Keys,
    Values,
    ValuesMut,
    RefIntoIter,
    MutIntoIter,
}

#[derive(Clone, Copy, Debug, Serialize, Deserialize, PartialEq, Eq)]
pub enum CloneKeep {
    /// clone, examine both, drop the clone
    DropClone,
    /// clone, drop the original first, keep the clone in its place
    KeepClone,
    /// `clone_from` into a container of the same type that already holds `prefill` entries; keep it
    CloneFrom(u8),
}

#[derive(Clone, Copy, Debug, Serialize, Deserialize, PartialEq, Eq)]
pub enum EntryAct {
    OrInsert,
    OrInsertWith,
    OrInsertWithKey,
    OrDefault,
    AndModifyOrInsert,
    AndModifyOrDefault,
    Key,
    Abandon,
    Forget,
    OccGet,
    OccGetMut,
    OccInsert,
    OccRemove,
    OccRemoveEntry,
    OccIntoMut,
    OccKey,
    VacInsert,
    VacIntoKey,
    VacKey,
}

pub const ENTRY_ACTS: [EntryAct; 19] = [
    EntryAct::OrInsert,
    EntryAct::OrInsertWith,
    EntryAct::OrInsertWithKey,
    EntryAct::OrDefault,
    EntryAct::AndModifyOrInsert,
    EntryAct::AndModifyOrDefault,
    EntryAct::Key,
    EntryAct::Abandon,
    EntryAct::Forget,
    EntryAct::OccGet,
    EntryAct::OccGetMut,
    EntryAct::OccInsert,
    EntryAct::OccRemove,
    EntryAct::OccRemoveEntry,
    EntryAct::OccIntoMut,
    EntryAct::OccKey,
    EntryAct::VacInsert,
    EntryAct::VacIntoKey,
    EntryAct::VacKey,
];

/// Behaviour of the caller-supplied source iterator (C16).
#[derive(Clone, Debug, Serialize, Deserialize, PartialEq, Eq)]
pub struct SrcCfg {
    /// 0..=4 correct hints (exact, (0,None), (0,Some(MAX)), (rem,None), loose bounds); 5..=7 incorrect ones
    pub hint: u8,
    /// `Some(p)`: yields None at position p once, then continues with the remaining items if polled again
    pub gap_at: Option<u8>,
}

#[derive(Clone, Copy, Debug, Serialize, Deserialize, PartialEq, Eq)]
pub enum AlgKind {
    Union,
    Intersection,
    Difference,
    SymDiff,
}

#[derive(Clone, Copy, Debug, Serialize, Deserialize, PartialEq, Eq)]
pub enum AlgUse {
    /// take j items with next(), then drop the adaptor
    Take(u8),
    Fold,
    Count,
    /// take j items, clone the adaptor, format it with Debug, continue to the end
    DebugAt(u8),
}

#[derive(Clone, Copy, Debug, Serialize, Deserialize, PartialEq, Eq)]
pub enum RelKind {
    Subset,
    Superset,
    Disjoint,
}

#[derive(Clone, Copy, Debug, Serialize, Deserialize, PartialEq, Eq)]
pub enum Style {
    Debug,
    Alt,
    Display,
}

/// Behaviour of the caller-supplied `fmt::Write` sink (C19).
#[derive(Clone, Copy, Debug, Serialize, Deserialize, PartialEq, Eq)]
pub struct SinkCfg {
    /// fail the w-th write call (1-based); None = healthy
    pub fail_at: Option<u32>,
    /// capacity in bytes; writes beyond it fail
    pub cap: u32,
    /// the j-th call of an element's own `Debug`/`Display` (1-based) returns `Err` without writing
    #[serde(default)]
    pub elem_fail_at: Option<u32>,
}

/// Every safe entry point through which a key can be added.
#[derive(Clone, Copy, Debug, Serialize, Deserialize, PartialEq, Eq)]
pub enum Via {
    Insert,
    InsertKv,
    EntryOrInsert,
    EntryOrInsertWith,
    EntryOrInsertWithKey,
    EntryOrDefault,
    VacantInsert,
    Collect,
    FromArr,
    SetInsert,
    SetReplace,
    SetCollect,
    SetFromArr,
    SetExtend,
    Checked,
}

pub const VIAS: [Via; 15] = [
    Via::Insert,
    Via::InsertKv,
    Via::EntryOrInsert,
    Via::EntryOrInsertWith,
    Via::EntryOrInsertWithKey,
    Via::EntryOrDefault,
    Via::VacantInsert,
    Via::Collect,
    Via::FromArr,
    Via::SetInsert,
    Via::SetReplace,
    Via::SetCollect,
    Via::SetFromArr,
    Via::SetExtend,
    Via::Checked,
];

/// Serde transport behaviour (C20).
#[derive(Clone, Debug, Serialize, Deserialize, PartialEq, Eq)]
pub struct SerdeCfg {
    /// false: simulator-owned token transport; true: real bincode codec over a byte buffer
    pub bincode: bool,
    /// token transport: deliver entries rotated by this many positions, reversed if odd
    pub permute: u8,
    /// token transport size hint: 0 exact, 1 None; 2 Some(0) and 3 far too large are incorrect (diagnostics only)
    pub hint: u8,
    /// decode into the other container of the pair (capacity M) instead of the same capacity
    pub into_other: bool,
    /// diagnostics only: truncate the byte stream / token list to this many units
    pub truncate: Option<u16>,
    /// diagnostics only: flip this bit of the byte stream
    pub flip_bit: Option<u16>,
    /// diagnostics only: serializer fails at this token
    pub ser_fail_at: Option<u16>,
    /// diagnostics only: the deserializer reports an error instead of delivering this entry
    #[serde(default)]
    pub de_fail_at: Option<u16>,
    /// diagnostics only: the transport delivers this entry twice (duplication); the decoded container must still be well-formed
    #[serde(default)]
    pub dup_at: Option<u16>,
    /// token transport: decode through `Deserialize::deserialize_in_place` into a target that already holds entries
    #[serde(default)]
    pub in_place: bool,
    /// 0: off; otherwise (and `bincode` false) the real serde_json codec is the transport: 1 compact text through
    /// `from_slice`, 2 spaced text through `from_reader`, 3 through `serde_json::Value` (keys in lexicographic
    /// order, exact size hint); `permute`, `dup_at`, `truncate`, `flip_bit`, `in_place` act on the text
    #[serde(default)]
    pub json: u8,
}

#[derive(Clone, Debug, Serialize, Deserialize, PartialEq, Eq)]
pub enum Op {
    // ---- Map
    Insert { t: T, c: u32 },
    InsertKv { t: T, c: u32 },
    Checked { t: T, c: u32 },
    /// `insert_unchecked`, executed only when its contract holds (not full, or key present)
    Unchecked { t: T, c: u32 },
    Get { t: T, c: u32, f: Form },
    GetMut { t: T, c: u32, f: Form },
    GetKv { t: T, c: u32, f: Form },
    Contains { t: T, c: u32, f: Form },
    Index { t: T, c: u32, f: Form },
    IndexMut { t: T, c: u32, f: Form },
    Remove { t: T, c: u32, f: Form },
    RemoveEntry { t: T, c: u32, f: Form },
    /// keep the i-th visited entry iff bit (i mod 32) of `keep` is set
    Retain { t: T, keep: u32, mutate: bool },
    Clear { t: T },
    Drain { t: T, take: u8, end: End },
    IntoIter { t: T, take: u8, end: End },
    IntoKeys { t: T, take: u8, end: End },
    IntoValues { t: T, take: u8, end: End },
    /// `fin`: what is done with the rest of a borrowing iterator: 0 nothing, 1 count, 2 last, 3 nth(take), 4 fold, 5 find, 6 size_hint/len only
    Iter { t: T, kind: IterKind, take: u8, clone_at: Option<u8>, dbg_at: Option<u8>, #[serde(default)] fin: u8 },
    CloneMap { t: T, keep: CloneKeep },
    EqMap { a: T, b: T },
    FromIter { t: T, items: Vec<u32>, src: SrcCfg },
    FromArr { t: T, items: Vec<u32> },
    Entry { t: T, c: u32, act: EntryAct },
    Disjoint { t: T, cs: Vec<u32>, f: Form },
    /// `get_disjoint_unchecked_mut`, executed only when its contract holds (pairwise different keys)
    DisjointUnchecked { t: T, cs: Vec<u32>, f: Form },
    /// `Default::default()` of an iterator type: 0 Iter, 1 IterMut, 2 IntoIter, 3 Keys, 4 IntoKeys, 5 Values,
    /// 6 ValuesMut, 7 IntoValues; polled, formatted and dropped
    DefaultIter { t: T, which: u8 },
    // ---- Set
    SInsert { t: T, c: u32 },
    SReplace { t: T, c: u32 },
    SContains { t: T, c: u32, f: Form },
    SGet { t: T, c: u32, f: Form },
    SRemove { t: T, c: u32, f: Form },
    STake { t: T, c: u32, f: Form },
    SRetain { t: T, keep: u32 },
    SClear { t: T },
    SDrain { t: T, take: u8, end: End },
    SIntoIter { t: T, take: u8, end: End },
    SIter { t: T, take: u8, clone_at: Option<u8>, #[serde(default)] fin: u8 },
    SClone { t: T, keep: CloneKeep },
    SEq { a: T, b: T },
    SFromIter { t: T, items: Vec<u32>, src: SrcCfg },
    SFromArr { t: T, items: Vec<u32> },
    SExtend { t: T, items: Vec<u32>, src: SrcCfg },
    SAlg { a: T, b: T, kind: AlgKind, how: AlgUse },
    SRel { a: T, b: T, kind: RelKind },
    SSub { a: T, b: T },
    /// `Set<&K, _>::difference_ref` over sets of references to the elements of sets `a` and `b`
    SDiffRef { a: T, b: T, how: AlgUse },
    /// `Extend<&T>` (for `T: Copy`): a set of plain `Copy` keys seeded with the classes of set `t`, extended by reference
    SExtendRef { t: T, items: Vec<u32>, src: SrcCfg },
    // ---- formatting, serde
    Fmt { t: T, set: bool, style: Style, sink: SinkCfg, #[serde(default)] spec: u8 },
    /// Debug of a consuming iterator / drain after `take` items
    FmtIter { t: T, which: u8, take: u8, alt: bool, sink: SinkCfg, #[serde(default)] spec: u8 },
    Serde { t: T, set: bool, cfg: SerdeCfg },
    /// large-capacity configuration (C06): a `Map<u32, u64, 256>` filled with `fill` entries; `sel` picks how many keys `get_disjoint_mut` is given at once (3 ... 256)
    BigDisjoint { fill: u16, sel: u8 },
    /// Display / Debug of a `Set` (or the keys of a `Map`) of `n` zero-sized elements whose `==` is never true
    /// (a lawful `PartialEq`, like NaN): several equal-looking zero-sized elements at one address
    FmtIrreflexive { n: u8, map: bool, style: Style, #[serde(default)] spec: u8 },
    /// one container's consuming iterator / drain is the source of another's bulk construction:
    /// `how` 0 set.extend(map.drain()), 1 set = map.into_iter().collect(), 2 set.extend(set.drain()),
    /// 3 set.extend(set.into_iter()), 4 set.extend(map.into_iter()), 5 set = map.drain().collect();
    /// keys are projected (class / 2) so that they collide
    Transfer { from: T, how: u8 },
    // ---- resource / placement
    /// insert fresh keys until full
    Fill { t: T, set: bool },
    /// add a key that is absent, through the given entry point
    /// `hint`: size_hint behaviour of the source for the bulk entry points (see `SrcCfg::hint`)
    Overflow { t: T, via: Via, #[serde(default)] hint: u8 },
    /// move the container value to a different address
    Relocate { t: T, set: bool },
    /// the deprecated `with_capacity(c)` constructor
    WithCap { t: T, c: u32 },
    /// drop and re-create the container
    DropNew { t: T, set: bool, #[serde(default)] dflt: bool },
}

#[derive(Clone, Debug, Serialize, Deserialize, PartialEq, Eq)]
pub struct Cfg {
    pub shape: Shape,
    pub n: usize,
    pub m: usize,
    /// number of equality classes ordinary operations draw keys from
    pub universe: u32,
    pub lie: Lie,
    pub lie_seed: u64,
    pub lie_borrow: bool,
    /// arm the allocator window around micromap calls (non-allocating shapes only)
    pub alloc_window: bool,
}

#[derive(Clone, Debug, Serialize, Deserialize, PartialEq, Eq)]
pub struct Plan {
    pub cfg: Cfg,
    pub ops: Vec<Op>,
    pub faults: Vec<Fault>,
}

/// What a replay file holds.
#[derive(Clone, Debug, Serialize, Deserialize)]
pub struct Replay {
    pub property: String,
    pub rule: String,
    pub step: i32,
    pub detail: String,
    pub seed: u64,
    pub run: u64,
    pub tier: String,
    pub profile: String,
    pub plan: Plan,
    /// the plan as first found, before minimisation
    pub original_ops: usize,
    pub original_faults: usize,
}

