//! Instrumented payload types: every piece of user code micromap can call on a
//! key or value (`==`, `Borrow`, `Clone`, `Drop`, `Default`, `Debug`, `Display`,
//! `Serialize`, `Deserialize`) is a stub that reports to the simulator first.

use crate::env::{self, Cb, Peek, MAGIC_K, MAGIC_V, POISON32};
use core::borrow::Borrow;
use core::fmt;
use core::mem::ManuallyDrop;
use serde::{Deserialize, Deserializer, Serialize, Serializer};

/// Renders `<prefix><id>` into a stack buffer and hands it to `Formatter::pad`, so that width, fill,
/// alignment and precision of the caller's format specification act on the element the way they do
/// for a string (no allocation).
pub fn pad_id(f: &mut fmt::Formatter<'_>, prefix: u8, id: u64) -> fmt::Result {
    // one object in eight renders its `Display` form as a single fragment of more than 64 bytes (a long
    // string element): a sink-side or formatter-side buffer must keep such a fragment in its place
    const TAIL: usize = 72;
    let long = prefix.is_ascii_uppercase() && id % 8 == 3;
    let mut buf = [b'_'; 24 + TAIL];
    let mut n = 24;
    let mut x = id;
    loop {
        n -= 1;
        buf[n] = b'0' + (x % 10) as u8;
        x /= 10;
        if x == 0 {
            break;
        }
    }
    n -= 1;
    buf[n] = prefix;
    let end = if long { 24 + TAIL } else { 24 };
    f.pad(core::str::from_utf8(&buf[n..end]).unwrap_or("?"))
}

/// `Debug` of a payload object. In the alternate form (`{:#?}`) some objects render over several lines, the way a
/// tuple or struct element does (`(\n    k12,\n)`): a container's pretty printer has to indent such an element
/// exactly as the standard `debug_map` / `debug_set` / `debug_list` builders do. Which objects do is a function of
/// the identity alone, so the mirror renders the same.
pub fn dbg_id(f: &mut fmt::Formatter<'_>, prefix: u8, id: u64) -> fmt::Result {
    struct Tok(u8, u64);
    impl fmt::Debug for Tok {
        fn fmt(&self, f: &mut fmt::Formatter<'_>) -> fmt::Result {
            pad_id(f, self.0, self.1)
        }
    }
    if f.alternate() && id % 4 == 1 {
        f.debug_tuple("").field(&Tok(prefix, id)).finish()
    } else {
        pad_id(f, prefix, id)
    }
}

/// The shape filler: what else a payload object carries besides its identity.
pub trait Fill: 'static {
    const HEAP: bool;
    fn new(id: u64) -> Self;
    fn ok(&self, id: u64) -> bool;
}

impl Fill for () {
    const HEAP: bool = false;
    fn new(_: u64) -> Self {}
    fn ok(&self, _: u64) -> bool {
        true
    }
}

impl Fill for [u64; 12] {
    const HEAP: bool = false;
    fn new(id: u64) -> Self {
        [id ^ 0x1111_2222_3333_4444; 12]
    }
    fn ok(&self, id: u64) -> bool {
        self.iter().all(|w| *w == id ^ 0x1111_2222_3333_4444)
    }
}

impl Fill for Box<u64> {
    const HEAP: bool = true;
    fn new(id: u64) -> Self {
        Box::new(!id)
    }
    fn ok(&self, id: u64) -> bool {
        **self == !id
    }
}

/// An over-aligned filler: the element's alignment (64) exceeds its natural one, so the slot stride
/// contains padding and a hand-computed address would be misaligned.
#[repr(align(64))]
pub struct A64(u64);

impl Fill for A64 {
    const HEAP: bool = false;
    fn new(id: u64) -> Self {
        A64(id ^ 0x5A5A_5A5A_0F0F_0F0F)
    }
    fn ok(&self, id: u64) -> bool {
        self.0 == id ^ 0x5A5A_5A5A_0F0F_0F0F
    }
}

/// The borrowed form of a key (like `str` for `String`).
#[derive(Clone, Copy, Debug)]
#[repr(transparent)]
pub struct Class(pub u32);

impl PartialEq for Class {
    fn eq(&self, o: &Self) -> bool {
        let a = Peek { class: self.0, ..Peek::default() };
        let b = Peek { class: o.0, ..Peek::default() };
        env::eq(Cb::EqQ, self.0 == o.0, &a, &b)
    }
}
impl Eq for Class {}

#[repr(C)]
pub struct SimKey<F: Fill> {
    magic: u32,
    class: Class,
    /// what `Borrow` hands out when the simulator makes `Borrow` disagree with `==`
    alt: Class,
    tag: u32,
    id: u64,
    fill: ManuallyDrop<F>,
}

#[repr(C)]
pub struct SimVal<F: Fill> {
    magic: u32,
    tag: u32,
    id: u64,
    payload: u64,
    fill: ManuallyDrop<F>,
}

/// What the harness needs from a key type.
pub trait SimK:
    PartialEq + Eq + Clone + Borrow<Class> + fmt::Debug + fmt::Display + Serialize + for<'de> Deserialize<'de> + 'static
{
    const ANON: bool;
    /// no drop glue: not recorded in the ledger
    const PLAIN: bool = false;
    const HEAP: bool;
    const NAME: &'static str;
    fn make(class: u32, tag: u32) -> Self;
    fn peek(&self) -> Peek;
    /// integrity of the parts the identity check does not cover
    fn intact(&self) -> bool;
}

pub trait SimV:
    PartialEq + Eq + Clone + Default + fmt::Debug + fmt::Display + Serialize + for<'de> Deserialize<'de> + 'static
{
    const ANON: bool;
    const PLAIN: bool = false;
    const HEAP: bool;
    const NAME: &'static str;
    fn make(payload: u64, tag: u32) -> Self;
    fn peek(&self) -> Peek;
    fn payload(&self) -> u64;
    fn set_payload(&mut self, p: u64);
    fn intact(&self) -> bool;
}

fn badness(magic: u32, want: u32) -> u8 {
    if magic == want {
        0
    } else if magic == POISON32 {
        1
    } else {
        2
    }
}

// ---------------------------------------------------------------- SimKey

impl<F: Fill> SimKey<F> {
    fn build(class: u32, alt: u32, tag: u32, from: u64) -> Self {
        let id = env::born(0, class, tag, from);
        let _p = crate::alloc::Pause::new();
        SimKey { magic: MAGIC_K, class: Class(class), alt: Class(alt), tag, id, fill: ManuallyDrop::new(F::new(id)) }
    }
}

impl<F: Fill> SimK for SimKey<F> {
    const ANON: bool = false;
    const HEAP: bool = F::HEAP;
    const NAME: &'static str = "SimKey";
    fn make(class: u32, tag: u32) -> Self {
        // under a lying Borrow the alternative class is the neighbouring one
        Self::build(class, class ^ 1, tag, 0)
    }
    #[inline]
    fn peek(&self) -> Peek {
        Peek { bad: badness(self.magic, MAGIC_K), id: self.id, class: self.class.0, tag: self.tag, kind: 0, anon: false, plain: false }
    }
    fn intact(&self) -> bool {
        self.magic == MAGIC_K && self.fill.ok(self.id)
    }
}

impl<F: Fill> PartialEq for SimKey<F> {
    fn eq(&self, o: &Self) -> bool {
        let (a, b) = (self.peek(), o.peek());
        let truth = a.bad == 0 && b.bad == 0 && a.class == b.class;
        env::eq(Cb::EqK, truth, &a, &b)
    }
}
impl<F: Fill> Eq for SimKey<F> {}

impl<F: Fill> Borrow<Class> for SimKey<F> {
    fn borrow(&self) -> &Class {
        let p = self.peek();
        env::touch(Cb::Borrow, Some(&p), None);
        if env::with(|e| e.lie_borrow && e.mode == env::Mode::Op) {
            &self.alt
        } else {
            &self.class
        }
    }
}

impl<F: Fill> Clone for SimKey<F> {
    fn clone(&self) -> Self {
        let p = self.peek();
        env::touch(Cb::CloneK, Some(&p), None);
        Self::build(p.class, self.alt.0, p.tag, p.id)
    }
}

impl<F: Fill> Drop for SimKey<F> {
    fn drop(&mut self) {
        let p = self.peek();
        if env::dropped(Cb::DropK, &p) {
            let _p = crate::alloc::Pause::new();
            unsafe { ManuallyDrop::drop(&mut self.fill) };
        }
        env::finish_drop();
    }
}

impl<F: Fill> fmt::Debug for SimKey<F> {
    fn fmt(&self, f: &mut fmt::Formatter<'_>) -> fmt::Result {
        let p = self.peek();
        env::touch(Cb::FmtK, Some(&p), None);
        if env::fmt_elem_fails() {
            return Err(fmt::Error);
        }
        dbg_id(f, b'k', p.id)
    }
}

impl<F: Fill> fmt::Display for SimKey<F> {
    fn fmt(&self, f: &mut fmt::Formatter<'_>) -> fmt::Result {
        let p = self.peek();
        env::touch(Cb::FmtK, Some(&p), None);
        if env::fmt_elem_fails() {
            return Err(fmt::Error);
        }
        pad_id(f, b'K', p.id)
    }
}

impl<F: Fill> Serialize for SimKey<F> {
    fn serialize<S: Serializer>(&self, s: S) -> Result<S::Ok, S::Error> {
        let p = self.peek();
        env::touch(Cb::Ser, Some(&p), None);
        // class in the high half, object id in the low half: the transport can tell which object was emitted
        s.serialize_u64(((p.class as u64) << 40) | (p.id & 0xff_ffff_ffff))
    }
}

impl<'de, F: Fill> Deserialize<'de> for SimKey<F> {
    fn deserialize<D: Deserializer<'de>>(d: D) -> Result<Self, D::Error> {
        let w = u64::deserialize(d)?;
        env::touch(Cb::De, None, None);
        let class = (w >> 40) as u32;
        Ok(Self::build(class, class ^ 1, 0, w & 0xff_ffff_ffff))
    }
}

// ---------------------------------------------------------------- SimVal

impl<F: Fill> SimVal<F> {
    fn build(payload: u64, tag: u32, from: u64) -> Self {
        let id = env::born(1, 0, tag, from);
        let _p = crate::alloc::Pause::new();
        SimVal { magic: MAGIC_V, tag, id, payload, fill: ManuallyDrop::new(F::new(id)) }
    }
}

impl<F: Fill> SimV for SimVal<F> {
    const ANON: bool = false;
    const HEAP: bool = F::HEAP;
    const NAME: &'static str = "SimVal";
    fn make(payload: u64, tag: u32) -> Self {
        Self::build(payload, tag, 0)
    }
    #[inline]
    fn peek(&self) -> Peek {
        Peek { bad: badness(self.magic, MAGIC_V), id: self.id, class: 0, tag: self.tag, kind: 1, anon: false, plain: false }
    }
    fn payload(&self) -> u64 {
        self.payload
    }
    fn set_payload(&mut self, p: u64) {
        self.payload = p;
    }
    fn intact(&self) -> bool {
        self.magic == MAGIC_V && self.fill.ok(self.id)
    }
}

impl<F: Fill> PartialEq for SimVal<F> {
    fn eq(&self, o: &Self) -> bool {
        let (a, b) = (self.peek(), o.peek());
        let truth = a.bad == 0 && b.bad == 0 && self.payload == o.payload;
        env::eq(Cb::EqV, truth, &a, &b)
    }
}
impl<F: Fill> Eq for SimVal<F> {}

impl<F: Fill> Clone for SimVal<F> {
    fn clone(&self) -> Self {
        let p = self.peek();
        env::touch(Cb::CloneV, Some(&p), None);
        Self::build(self.payload, p.tag, p.id)
    }
}

impl<F: Fill> Default for SimVal<F> {
    fn default() -> Self {
        env::touch(Cb::Dflt, None, None);
        Self::build(0, 0, 0)
    }
}

impl<F: Fill> Drop for SimVal<F> {
    fn drop(&mut self) {
        let p = self.peek();
        if env::dropped(Cb::DropV, &p) {
            let _p = crate::alloc::Pause::new();
            unsafe { ManuallyDrop::drop(&mut self.fill) };
        }
        env::finish_drop();
    }
}

impl<F: Fill> fmt::Debug for SimVal<F> {
    fn fmt(&self, f: &mut fmt::Formatter<'_>) -> fmt::Result {
        let p = self.peek();
        env::touch(Cb::FmtV, Some(&p), None);
        if env::fmt_elem_fails() {
            return Err(fmt::Error);
        }
        dbg_id(f, b'v', p.id)
    }
}

impl<F: Fill> fmt::Display for SimVal<F> {
    fn fmt(&self, f: &mut fmt::Formatter<'_>) -> fmt::Result {
        let p = self.peek();
        env::touch(Cb::FmtV, Some(&p), None);
        if env::fmt_elem_fails() {
            return Err(fmt::Error);
        }
        pad_id(f, b'V', p.id)
    }
}

impl<F: Fill> Serialize for SimVal<F> {
    fn serialize<S: Serializer>(&self, s: S) -> Result<S::Ok, S::Error> {
        let p = self.peek();
        env::touch(Cb::Ser, Some(&p), None);
        s.serialize_u64(((self.payload & 0xff_ffff) << 40) | (p.id & 0xff_ffff_ffff))
    }
}

impl<'de, F: Fill> Deserialize<'de> for SimVal<F> {
    fn deserialize<D: Deserializer<'de>>(d: D) -> Result<Self, D::Error> {
        let w = u64::deserialize(d)?;
        env::touch(Cb::De, None, None);
        Ok(Self::build(w >> 40, 0, w & 0xff_ffff_ffff))
    }
}

// ---------------------------------------------------------------- zero-sized payloads

/// A zero-sized key: all instances are equal (one class), tracked by count.
pub struct ZKey;
/// A zero-sized value with a destructor, tracked by count.
pub struct ZVal;

static ZCLASS: Class = Class(0);

impl SimK for ZKey {
    const ANON: bool = true;
    const HEAP: bool = false;
    const NAME: &'static str = "ZKey";
    fn make(_: u32, _: u32) -> Self {
        env::born_anon(0);
        ZKey
    }
    fn peek(&self) -> Peek {
        Peek { kind: 0, anon: true, ..Peek::default() }
    }
    fn intact(&self) -> bool {
        true
    }
}
impl PartialEq for ZKey {
    fn eq(&self, o: &Self) -> bool {
        env::eq(Cb::EqK, true, &self.peek(), &o.peek())
    }
}
impl Eq for ZKey {}
impl Borrow<Class> for ZKey {
    fn borrow(&self) -> &Class {
        env::touch(Cb::Borrow, Some(&self.peek()), None);
        &ZCLASS
    }
}
impl Clone for ZKey {
    fn clone(&self) -> Self {
        env::touch(Cb::CloneK, Some(&self.peek()), None);
        env::born_anon(0);
        ZKey
    }
}
impl Drop for ZKey {
    fn drop(&mut self) {
        env::dropped(Cb::DropK, &self.peek());
        env::finish_drop();
    }
}
impl fmt::Debug for ZKey {
    fn fmt(&self, f: &mut fmt::Formatter<'_>) -> fmt::Result {
        env::touch(Cb::FmtK, Some(&self.peek()), None);
        if env::fmt_elem_fails() {
            return Err(fmt::Error);
        }
        dbg_id(f, b'k', 0)
    }
}
impl fmt::Display for ZKey {
    fn fmt(&self, f: &mut fmt::Formatter<'_>) -> fmt::Result {
        env::touch(Cb::FmtK, Some(&self.peek()), None);
        if env::fmt_elem_fails() {
            return Err(fmt::Error);
        }
        pad_id(f, b'K', 0)
    }
}
impl Serialize for ZKey {
    fn serialize<S: Serializer>(&self, s: S) -> Result<S::Ok, S::Error> {
        env::touch(Cb::Ser, Some(&self.peek()), None);
        s.serialize_u64(0)
    }
}
impl<'de> Deserialize<'de> for ZKey {
    fn deserialize<D: Deserializer<'de>>(d: D) -> Result<Self, D::Error> {
        let _ = u64::deserialize(d)?;
        env::touch(Cb::De, None, None);
        env::born_anon(0);
        Ok(ZKey)
    }
}

impl SimV for ZVal {
    const ANON: bool = true;
    const HEAP: bool = false;
    const NAME: &'static str = "ZVal";
    fn make(_: u64, _: u32) -> Self {
        env::born_anon(1);
        ZVal
    }
    fn peek(&self) -> Peek {
        Peek { kind: 1, anon: true, ..Peek::default() }
    }
    fn payload(&self) -> u64 {
        0
    }
    fn set_payload(&mut self, _: u64) {}
    fn intact(&self) -> bool {
        true
    }
}
impl PartialEq for ZVal {
    fn eq(&self, o: &Self) -> bool {
        env::eq(Cb::EqV, true, &self.peek(), &o.peek())
    }
}
impl Eq for ZVal {}
impl Clone for ZVal {
    fn clone(&self) -> Self {
        env::touch(Cb::CloneV, Some(&self.peek()), None);
        env::born_anon(1);
        ZVal
    }
}
impl Default for ZVal {
    fn default() -> Self {
        env::touch(Cb::Dflt, None, None);
        env::born_anon(1);
        ZVal
    }
}
impl Drop for ZVal {
    fn drop(&mut self) {
        env::dropped(Cb::DropV, &self.peek());
        env::finish_drop();
    }
}
impl fmt::Debug for ZVal {
    fn fmt(&self, f: &mut fmt::Formatter<'_>) -> fmt::Result {
        env::touch(Cb::FmtV, Some(&self.peek()), None);
        if env::fmt_elem_fails() {
            return Err(fmt::Error);
        }
        dbg_id(f, b'v', 0)
    }
}
impl fmt::Display for ZVal {
    fn fmt(&self, f: &mut fmt::Formatter<'_>) -> fmt::Result {
        env::touch(Cb::FmtV, Some(&self.peek()), None);
        if env::fmt_elem_fails() {
            return Err(fmt::Error);
        }
        pad_id(f, b'V', 0)
    }
}
impl Serialize for ZVal {
    fn serialize<S: Serializer>(&self, s: S) -> Result<S::Ok, S::Error> {
        env::touch(Cb::Ser, Some(&self.peek()), None);
        s.serialize_u64(0)
    }
}
impl<'de> Deserialize<'de> for ZVal {
    fn deserialize<D: Deserializer<'de>>(d: D) -> Result<Self, D::Error> {
        let _ = u64::deserialize(d)?;
        env::touch(Cb::De, None, None);
        env::born_anon(1);
        Ok(ZVal)
    }
}

// ---------------------------------------------------------------- payloads without drop glue

/// A key without a destructor (`needs_drop::<PKey>()` is false): it carries an identity, but the
/// ledger cannot follow it, so only its uses are validated (magic word), not its lifetime.
#[repr(C)]
pub struct PKey {
    magic: u32,
    class: Class,
    alt: Class,
    tag: u32,
    id: u64,
}

#[repr(C)]
pub struct PVal {
    magic: u32,
    tag: u32,
    id: u64,
    payload: u64,
}

impl SimK for PKey {
    const ANON: bool = false;
    const PLAIN: bool = true;
    const HEAP: bool = false;
    const NAME: &'static str = "PKey";
    fn make(class: u32, tag: u32) -> Self {
        PKey { magic: MAGIC_K, class: Class(class), alt: Class(class ^ 1), tag, id: env::born_plain() }
    }
    fn peek(&self) -> Peek {
        Peek { bad: badness(self.magic, MAGIC_K), id: self.id, class: self.class.0, tag: self.tag, kind: 0, anon: false, plain: true }
    }
    fn intact(&self) -> bool {
        self.magic == MAGIC_K
    }
}
impl PartialEq for PKey {
    fn eq(&self, o: &Self) -> bool {
        let (a, b) = (self.peek(), o.peek());
        env::eq(Cb::EqK, a.bad == 0 && b.bad == 0 && a.class == b.class, &a, &b)
    }
}
impl Eq for PKey {}
impl Borrow<Class> for PKey {
    fn borrow(&self) -> &Class {
        env::touch(Cb::Borrow, Some(&self.peek()), None);
        if env::with(|e| e.lie_borrow && e.mode == env::Mode::Op) {
            &self.alt
        } else {
            &self.class
        }
    }
}
impl Clone for PKey {
    fn clone(&self) -> Self {
        let p = self.peek();
        env::touch(Cb::CloneK, Some(&p), None);
        PKey { magic: MAGIC_K, class: self.class, alt: self.alt, tag: self.tag, id: env::born_plain() }
    }
}
impl fmt::Debug for PKey {
    fn fmt(&self, f: &mut fmt::Formatter<'_>) -> fmt::Result {
        let p = self.peek();
        env::touch(Cb::FmtK, Some(&p), None);
        if env::fmt_elem_fails() {
            return Err(fmt::Error);
        }
        dbg_id(f, b'k', p.id)
    }
}
impl fmt::Display for PKey {
    fn fmt(&self, f: &mut fmt::Formatter<'_>) -> fmt::Result {
        let p = self.peek();
        env::touch(Cb::FmtK, Some(&p), None);
        if env::fmt_elem_fails() {
            return Err(fmt::Error);
        }
        pad_id(f, b'K', p.id)
    }
}
impl Serialize for PKey {
    fn serialize<S: Serializer>(&self, s: S) -> Result<S::Ok, S::Error> {
        let p = self.peek();
        env::touch(Cb::Ser, Some(&p), None);
        s.serialize_u64(((p.class as u64) << 40) | (p.id & 0xff_ffff_ffff))
    }
}
impl<'de> Deserialize<'de> for PKey {
    fn deserialize<D: Deserializer<'de>>(d: D) -> Result<Self, D::Error> {
        let w = u64::deserialize(d)?;
        env::touch(Cb::De, None, None);
        Ok(PKey::make((w >> 40) as u32, 0))
    }
}

impl SimV for PVal {
    const ANON: bool = false;
    const PLAIN: bool = true;
    const HEAP: bool = false;
    const NAME: &'static str = "PVal";
    fn make(payload: u64, tag: u32) -> Self {
        PVal { magic: MAGIC_V, tag, id: env::born_plain(), payload }
    }
    fn peek(&self) -> Peek {
        Peek { bad: badness(self.magic, MAGIC_V), id: self.id, class: 0, tag: self.tag, kind: 1, anon: false, plain: true }
    }
    fn payload(&self) -> u64 {
        self.payload
    }
    fn set_payload(&mut self, p: u64) {
        self.payload = p;
    }
    fn intact(&self) -> bool {
        self.magic == MAGIC_V
    }
}
impl PartialEq for PVal {
    fn eq(&self, o: &Self) -> bool {
        let (a, b) = (self.peek(), o.peek());
        env::eq(Cb::EqV, a.bad == 0 && b.bad == 0 && self.payload == o.payload, &a, &b)
    }
}
impl Eq for PVal {}
impl Clone for PVal {
    fn clone(&self) -> Self {
        env::touch(Cb::CloneV, Some(&self.peek()), None);
        PVal { magic: MAGIC_V, tag: self.tag, id: env::born_plain(), payload: self.payload }
    }
}
impl Default for PVal {
    fn default() -> Self {
        env::touch(Cb::Dflt, None, None);
        PVal::make(0, 0)
    }
}
impl fmt::Debug for PVal {
    fn fmt(&self, f: &mut fmt::Formatter<'_>) -> fmt::Result {
        let p = self.peek();
        env::touch(Cb::FmtV, Some(&p), None);
        if env::fmt_elem_fails() {
            return Err(fmt::Error);
        }
        dbg_id(f, b'v', p.id)
    }
}
impl fmt::Display for PVal {
    fn fmt(&self, f: &mut fmt::Formatter<'_>) -> fmt::Result {
        let p = self.peek();
        env::touch(Cb::FmtV, Some(&p), None);
        if env::fmt_elem_fails() {
            return Err(fmt::Error);
        }
        pad_id(f, b'V', p.id)
    }
}
impl Serialize for PVal {
    fn serialize<S: Serializer>(&self, s: S) -> Result<S::Ok, S::Error> {
        let p = self.peek();
        env::touch(Cb::Ser, Some(&p), None);
        s.serialize_u64(((self.payload & 0xff_ffff) << 40) | (p.id & 0xff_ffff_ffff))
    }
}
impl<'de> Deserialize<'de> for PVal {
    fn deserialize<D: Deserializer<'de>>(d: D) -> Result<Self, D::Error> {
        let w = u64::deserialize(d)?;
        env::touch(Cb::De, None, None);
        Ok(PVal::make(w >> 40, 0))
    }
}

// ---------------------------------------------------------------- a `Copy` key (for `Extend<&T>`)

/// A plain `Copy` key: the only kind of element `Extend<&'a T>` accepts. It has an instrumented
/// `==` and a magic word, but no identity in the ledger (it is duplicated bit by bit).
#[derive(Clone, Copy)]
#[repr(C)]
pub struct CKey {
    magic: u32,
    pub class: u32,
    pub tag: u32,
}

impl CKey {
    pub fn new(class: u32, tag: u32) -> Self {
        CKey { magic: MAGIC_K, class, tag }
    }
    pub fn peek(&self) -> Peek {
        Peek { bad: badness(self.magic, MAGIC_K), id: (1u64 << 38) | self.tag as u64, class: self.class, tag: self.tag, kind: 0, anon: false, plain: true }
    }
}

impl PartialEq for CKey {
    fn eq(&self, o: &Self) -> bool {
        let (a, b) = (self.peek(), o.peek());
        env::eq(Cb::EqK, a.bad == 0 && b.bad == 0 && a.class == b.class, &a, &b)
    }
}
impl Eq for CKey {}
