//! Dispatch of plan operations onto the four containers, and the per-operation
//! rules (C03) that are stated over the identity snapshots before and after.

use crate::env;
use crate::exec::{op_name, Ended, OpOut, Pre, World};
use crate::ops_bulk::{absent_class, is_set_via, map_from_arr, map_from_iter, overflow_stream, set_extend, set_from_arr, set_from_iter};
use crate::ops_fmt::{fmt_iter, fmt_map, fmt_set};
use crate::ops_map::map_op;
use crate::ops_set::{map_eq, set_alg, set_eq, set_op, set_rel, set_sub};
use crate::payload::{SimK, SimV};
use crate::plan::{EntryAct, Form, Op, SrcCfg, Via, T};
use crate::world::{has_class, violate, Snap};
use micromap::{Map, Set};

macro_rules! on_map {
    ($w:ident, $t:expr, |$m:ident, $cx:ident| $body:expr) => {
        match $t {
            T::A => {
                let $m = &mut $w.ma.g.val;
                let $cx = &mut $w.cx;
                $body
            }
            T::B => {
                let $m = &mut $w.mb.g.val;
                let $cx = &mut $w.cx;
                $body
            }
        }
    };
}

macro_rules! on_set {
    ($w:ident, $t:expr, |$s:ident, $cx:ident| $body:expr) => {
        match $t {
            T::A => {
                let $s = &mut $w.sa.g.val;
                let $cx = &mut $w.cx;
                $body
            }
            T::B => {
                let $s = &mut $w.sb.g.val;
                let $cx = &mut $w.cx;
                $body
            }
        }
    };
}

macro_rules! on_two_maps {
    ($w:ident, $a:expr, $b:expr, |$x:ident, $y:ident, $cx:ident| $body:expr) => {{
        let $cx = &mut $w.cx;
        match ($a, $b) {
            (T::A, T::A) => {
                let ($x, $y) = (&$w.ma.g.val, &$w.ma.g.val);
                $body
            }
            (T::A, T::B) => {
                let ($x, $y) = (&$w.ma.g.val, &$w.mb.g.val);
                $body
            }
            (T::B, T::A) => {
                let ($x, $y) = (&$w.mb.g.val, &$w.ma.g.val);
                $body
            }
            (T::B, T::B) => {
                let ($x, $y) = (&$w.mb.g.val, &$w.mb.g.val);
                $body
            }
        }
    }};
}

macro_rules! on_two_sets {
    ($w:ident, $a:expr, $b:expr, |$x:ident, $y:ident, $cx:ident| $body:expr) => {{
        let $cx = &mut $w.cx;
        match ($a, $b) {
            (T::A, T::A) => {
                let ($x, $y) = (&$w.sa.g.val, &$w.sa.g.val);
                $body
            }
            (T::A, T::B) => {
                let ($x, $y) = (&$w.sa.g.val, &$w.sb.g.val);
                $body
            }
            (T::B, T::A) => {
                let ($x, $y) = (&$w.sb.g.val, &$w.sa.g.val);
                $body
            }
            (T::B, T::B) => {
                let ($x, $y) = (&$w.sb.g.val, &$w.sb.g.val);
                $body
            }
        }
    }};
}

/// The same entries (object identities and value payloads), whatever the slot order.
fn same_entries(a: &Snap, b: &Snap) -> bool {
    let key = |e: &crate::world::Ent| (e.kid, e.vid, e.vpay, e.kclass, e.ktag, e.kbad, e.vbad);
    let (mut x, mut y): (Vec<_>, Vec<_>) = (a.iter().map(key).collect(), b.iter().map(key).collect());
    x.sort_unstable();
    y.sort_unstable();
    x == y
}

/// The insertion an operation attempts: (is a set, target, class), derived from the operation and
/// the snapshot before it (never from what the container answered).
pub fn attempted_add(op: &Op, pre: &Pre) -> Option<(bool, T, u32)> {
    match op {
        Op::Insert { t, c } | Op::InsertKv { t, c } | Op::Checked { t, c } | Op::Unchecked { t, c } => Some((false, *t, *c)),
        Op::Entry { t, c, act } => match act {
            EntryAct::OrInsert | EntryAct::OrInsertWith | EntryAct::OrInsertWithKey | EntryAct::OrDefault | EntryAct::AndModifyOrInsert | EntryAct::AndModifyOrDefault | EntryAct::VacInsert => Some((false, *t, *c)),
            _ => None,
        },
        Op::SInsert { t, c } | Op::SReplace { t, c } => Some((true, *t, *c)),
        Op::Overflow { t, via, .. } => match via {
            Via::Collect | Via::FromArr | Via::SetCollect | Via::SetFromArr | Via::SetExtend => None,
            v => {
                let set = is_set_via(*v);
                let s = if set { pre.set(*t) } else { pre.map(*t) };
                Some((set, *t, absent_class(s)))
            }
        },
        _ => None,
    }
}

impl<K: SimK, V: SimV, const N: usize, const M: usize> World<K, V, N, M> {
    pub fn do_op(&mut self, op: &Op, pre: &Pre) -> OpOut {
        let mut out = OpOut::default();
        match op {
            Op::Insert { t, .. }
            | Op::InsertKv { t, .. }
            | Op::Checked { t, .. }
            | Op::Unchecked { t, .. }
            | Op::Get { t, .. }
            | Op::GetMut { t, .. }
            | Op::GetKv { t, .. }
            | Op::Contains { t, .. }
            | Op::Index { t, .. }
            | Op::IndexMut { t, .. }
            | Op::Remove { t, .. }
            | Op::RemoveEntry { t, .. }
            | Op::Retain { t, .. }
            | Op::Clear { t }
            | Op::Drain { t, .. }
            | Op::IntoIter { t, .. }
            | Op::IntoKeys { t, .. }
            | Op::IntoValues { t, .. }
            | Op::Iter { t, .. }
            | Op::CloneMap { t, .. }
            | Op::Entry { t, .. }
            | Op::Disjoint { t, .. }
            | Op::WithCap { t, .. }
            | Op::Fill { t, set: false }
            | Op::DisjointUnchecked { t, .. }
            | Op::DefaultIter { t, .. }
            | Op::DropNew { t, set: false, .. } => {
                let p = pre.map(*t);
                on_map!(self, *t, |m, cx| map_op(m, cx, op, *t, p, &mut out))
            }
            Op::SInsert { t, .. }
            | Op::SReplace { t, .. }
            | Op::SContains { t, .. }
            | Op::SGet { t, .. }
            | Op::SRemove { t, .. }
            | Op::STake { t, .. }
            | Op::SRetain { t, .. }
            | Op::SClear { t }
            | Op::SDrain { t, .. }
            | Op::SIntoIter { t, .. }
            | Op::SIter { t, .. }
            | Op::SClone { t, .. }
            | Op::Fill { t, set: true }
            | Op::SExtendRef { t, .. }
            | Op::DropNew { t, set: true, .. } => {
                let p = pre.set(*t);
                on_set!(self, *t, |s, cx| set_op(s, cx, op, *t, p, &mut out))
            }
            Op::EqMap { a, b } => on_two_maps!(self, *a, *b, |x, y, cx| map_eq(x, y, cx)),
            Op::SEq { a, b } => on_two_sets!(self, *a, *b, |x, y, cx| set_eq(x, y, cx)),
            Op::SRel { a, b, kind } => on_two_sets!(self, *a, *b, |x, y, cx| set_rel(x, y, cx, *kind)),
            Op::SSub { a, b } => on_two_sets!(self, *a, *b, |x, y, cx| set_sub(x, y, cx)),
            Op::SDiffRef { a, b, how } => on_two_sets!(self, *a, *b, |x, y, cx| crate::ops_set::set_diff_ref(x, y, cx, *how)),
            Op::SAlg { a, b, kind, how } => on_two_sets!(self, *a, *b, |x, y, cx| set_alg(x, y, cx, *kind, *how)),
            Op::FromIter { t, items, src } => on_map!(self, *t, |m, cx| map_from_iter(m, cx, items, src, "Map::from_iter")),
            Op::FromArr { t, items } => on_map!(self, *t, |m, cx| map_from_arr(m, cx, items)),
            Op::SFromIter { t, items, src } => on_set!(self, *t, |s, cx| set_from_iter(s, cx, items, src, "Set::from_iter")),
            Op::SFromArr { t, items } => on_set!(self, *t, |s, cx| set_from_arr(s, cx, items)),
            Op::SExtend { t, items, src } => {
                let p = pre.set(*t);
                on_set!(self, *t, |s, cx| set_extend(s, cx, items, src, p))
            }
            Op::Fmt { t, set: false, style, sink, spec } => {
                let p = pre.map(*t);
                on_map!(self, *t, |m, cx| fmt_map(m, cx, *style, *spec, *sink, p))
            }
            Op::Fmt { t, set: true, style, sink, spec } => {
                let p = pre.set(*t);
                on_set!(self, *t, |s, cx| fmt_set(s, cx, *style, *spec, *sink, p))
            }
            Op::FmtIter { t, which, take, alt, sink, spec } => {
                let p = pre.map(*t);
                on_map!(self, *t, |m, cx| fmt_iter(m, cx, *which, *take, *alt, *spec, *sink, p))
            }
            Op::FmtIrreflexive { n, map, style, spec } => crate::ops_big::fmt_irreflexive(&mut self.cx, *n, *map, *style, *spec),
            Op::Transfer { from, how } => self.transfer(*from, *how, pre),
            Op::BigDisjoint { fill, sel } => crate::ops_big::big_disjoint(&mut self.cx, *fill, *sel),
            Op::Serde { t, set, cfg } => crate::ops_serde::serde_op(self, *t, *set, cfg, pre),
            Op::Relocate { t, set } => {
                self.cx.probe("relocated");
                match (set, t) {
                    (false, T::A) => self.ma.relocate(Map::new()),
                    (false, T::B) => self.mb.relocate(Map::new()),
                    (true, T::A) => self.sa.relocate(Set::new()),
                    (true, T::B) => self.sb.relocate(Set::new()),
                }
            }
            Op::Overflow { t, via, hint } => self.overflow(*t, *via, *hint, pre, &mut out),
        }
        out
    }

    /// One container's consuming iterator / drain feeds another container's bulk construction.
    fn transfer(&mut self, from: T, how: u8, pre: &Pre) {
        match from {
            T::A => crate::ops_bulk::transfer(&mut self.ma.g.val, &mut self.sa.g.val, &mut self.sb.g.val, &mut self.cx, how, &pre.ma, &pre.sa, &pre.sb),
            T::B => crate::ops_bulk::transfer(&mut self.mb.g.val, &mut self.sb.g.val, &mut self.sa.g.val, &mut self.cx, how, &pre.mb, &pre.sb, &pre.sa),
        }
    }

    fn overflow(&mut self, t: T, via: Via, hint: u8, pre: &Pre, out: &mut OpOut) {
        let truthful = SrcCfg { hint, gap_at: None };
        if hint > 4 {
            self.cx.probe("overflow_with_incorrect_size_hint");
        }
        if is_set_via(via) {
            let p = pre.set(t);
            let c = absent_class(p);
            match via {
                Via::SetInsert => on_set!(self, t, |s, cx| set_op(s, cx, &Op::SInsert { t, c }, t, p, out)),
                Via::SetReplace => on_set!(self, t, |s, cx| set_op(s, cx, &Op::SReplace { t, c }, t, p, out)),
                Via::SetCollect => on_set!(self, t, |s, cx| {
                    let cap = s.capacity();
                    set_from_iter(s, cx, &overflow_stream(p, cap, true), &truthful, "Set::from_iter")
                }),
                Via::SetFromArr => on_set!(self, t, |s, cx| set_from_arr(s, cx, &[])),
                _ => on_set!(self, t, |s, cx| {
                    let cap = s.capacity();
                    set_extend(s, cx, &overflow_stream(p, cap, false), &truthful, p)
                }),
            }
        } else {
            let p = pre.map(t);
            let c = absent_class(p);
            let eop = |act| Op::Entry { t, c, act };
            match via {
                Via::Insert => on_map!(self, t, |m, cx| map_op(m, cx, &Op::Insert { t, c }, t, p, out)),
                Via::InsertKv => on_map!(self, t, |m, cx| map_op(m, cx, &Op::InsertKv { t, c }, t, p, out)),
                Via::Checked => on_map!(self, t, |m, cx| map_op(m, cx, &Op::Checked { t, c }, t, p, out)),
                Via::EntryOrInsert => on_map!(self, t, |m, cx| map_op(m, cx, &eop(EntryAct::OrInsert), t, p, out)),
                Via::EntryOrInsertWith => on_map!(self, t, |m, cx| map_op(m, cx, &eop(EntryAct::OrInsertWith), t, p, out)),
                Via::EntryOrInsertWithKey => on_map!(self, t, |m, cx| map_op(m, cx, &eop(EntryAct::OrInsertWithKey), t, p, out)),
                Via::EntryOrDefault => on_map!(self, t, |m, cx| map_op(m, cx, &eop(EntryAct::OrDefault), t, p, out)),
                Via::VacantInsert => on_map!(self, t, |m, cx| map_op(m, cx, &eop(EntryAct::VacInsert), t, p, out)),
                Via::Collect => on_map!(self, t, |m, cx| {
                    let cap = m.capacity();
                    map_from_iter(m, cx, &overflow_stream(p, cap, true), &truthful, "Map::from_iter")
                }),
                _ => on_map!(self, t, |m, cx| map_from_arr(m, cx, &[])),
            }
        }
    }

    /// Rules that relate one operation to the snapshots before and after it (C03).
    pub fn op_rules(&mut self, op: &Op, pre: &Pre, post: &Pre, ended: &Ended, out: &OpOut) {
        if self.cx.lying || matches!(ended, Ended::Injected | Ended::Watchdog) {
            return;
        }
        let name = op_name(op);
        // a consuming iterator / drain never panics on its own, however it is stepped
        if matches!(op, Op::Drain { .. } | Op::IntoIter { .. } | Op::IntoKeys { .. } | Op::IntoValues { .. } | Op::SDrain { .. } | Op::SIntoIter { .. }) {
            if let Ended::Raised(msg) = ended {
                violate("wrong-yield", format!("{name}: stepping or letting go of the iterator panicked ({msg})"));
            }
        }
        // a transfer that overflowed the receiving set: the rejected key is destroyed exactly once
        if matches!(op, Op::Transfer { .. }) && matches!(ended, Ended::Raised(_)) {
            self.rejected_accounting(&name);
        }
        // formatting and serialising never change the container
        if let Op::Fmt { t, set, .. } = op {
            let (a, b) = if *set { (pre.set(*t), post.set(*t)) } else { (pre.map(*t), post.map(*t)) };
            if !same_entries(a, b) {
                violate("changed-by-formatting", format!("{name}: the container's entries differ after formatting"));
            }
        }
        if let Op::Serde { t, set, .. } = op {
            let (a, b) = if *set { (pre.set(*t), post.set(*t)) } else { (pre.map(*t), post.map(*t)) };
            if !same_entries(a, b) {
                violate("changed-by-serialising", format!("{name}: the container's entries differ after a serde round trip"));
            }
        }
        // bulk overflow entry points
        if let Op::Overflow { t, via, hint } = op {
            // a source with an incorrect size_hint is a buggy (though safe) caller: only the standing
            // memory-safety checks (canaries, len <= capacity, ledger) are judged then
            if *hint > 4 && matches!(via, Via::Collect | Via::SetCollect | Via::SetExtend) {
                return;
            }
            let cap = |set: bool| if set { if *t == T::A { N } else { M } } else if *t == T::A { N } else { M };
            match via {
                Via::Collect | Via::SetCollect => {
                    let set = *via == Via::SetCollect;
                    let (a, b) = if set { (pre.set(*t), post.set(*t)) } else { (pre.map(*t), post.map(*t)) };
                    if K::ANON {
                        return;
                    }
                    if !matches!(ended, Ended::Raised(_)) {
                        violate("no-panic-on-overflow", format!("collect of {} distinct keys into capacity {} returned normally", cap(set) + 1, cap(set)));
                    } else if !same_entries(a, b) {
                        violate("changed-by-rejected-call", format!("{name}: an existing container changed although collect panicked"));
                    }
                    self.rejected_accounting(&name);
                }
                Via::SetExtend => {
                    let (a, b) = (pre.set(*t), post.set(*t));
                    if K::ANON {
                        return;
                    }
                    if !matches!(ended, Ended::Raised(_)) {
                        violate("no-panic-on-overflow", format!("extend past capacity {} returned normally", cap(true)));
                    }
                    // exactly N entries: every previous one, plus elements that came earlier in the stream
                    let kept = a.iter().all(|e| b.iter().any(|x| x.kid == e.kid));
                    let fresh_ok = K::PLAIN || env::with(|e| b.iter().filter(|x| !a.iter().any(|y| y.kid == x.kid)).all(|x| x.kid != 0 && (x.kid as usize) <= e.objs.len() && e.objs[x.kid as usize - 1].born_op == e.cur_op));
                    if !kept || !fresh_ok || b.len() != cap(true) {
                        violate("changed-by-rejected-call", format!("{name}: after the rejected element the set must hold its {} previous elements plus earlier stream elements up to capacity {}; it holds {} (previous kept: {kept})", a.len(), cap(true), b.len()));
                    }
                    self.rejected_accounting(&name);
                }
                _ => {}
            }
        }
        let Some((set, t, c)) = attempted_add(op, pre) else { return };
        let (a, b): (&Snap, &Snap) = if set { (pre.set(t), post.set(t)) } else { (pre.map(t), post.map(t)) };
        let cap = if t == T::A { N } else { M };
        if a.len() != cap {
            return;
        }
        let present = has_class(a, c, K::ANON);
        let is_checked = matches!(op, Op::Checked { .. } | Op::Overflow { via: Via::Checked, .. });
        if matches!(op, Op::Unchecked { .. }) && !present {
            return;
        }
        if !present {
            if is_checked {
                if *ended != Ended::Returned || out.checked_ret != Some(false) {
                    violate("checked-insert-wrong", format!("checked_insert of an absent key into a full map must return None without panicking (ended {ended:?}, returned Some: {:?})", out.checked_ret));
                }
            } else if !matches!(ended, Ended::Raised(_)) {
                violate("no-panic-on-overflow", format!("{name}: adding an absent key (class {c}) to a container that holds {cap} of {cap} entries returned normally"));
            }
            if !same_entries(a, b) {
                violate("changed-by-rejected-call", format!("{name}: the full container's entries differ after the rejected insertion"));
            }
            self.rejected_accounting(&name);
        } else {
            if *ended != Ended::Returned {
                violate("replace-on-full-failed", format!("{name}: supplying a key that is already present to a full container must succeed, but it ended with {ended:?}"));
                return;
            }
            if is_checked && out.checked_ret != Some(true) {
                violate("checked-insert-wrong", "checked_insert of a present key into a full map returned None".to_string());
            }
            let replaces_value = matches!(op, Op::Insert { .. } | Op::InsertKv { .. } | Op::Checked { .. } | Op::Unchecked { .. });
            if replaces_value && !set && !V::ANON && !b.iter().any(|e| e.vid == out.new_val) {
                violate("replace-on-full-failed", format!("{name}: the new value (#{}) is not stored after replacing on a full map", out.new_val));
            }
            if b.len() != cap {
                violate("replace-on-full-failed", format!("{name}: a full container holds {} entries after a replace", b.len()));
            }
        }
    }

    /// After a rejected insertion: the rejected key and value must have been destroyed exactly once.
    fn rejected_accounting(&mut self, name: &str) {
        let n = env::with(|e| e.viols.iter().filter(|v| v.step == e.cur_op && (v.rule == "no-place" || v.rule == "double-destruction" || v.rule == "two-places")).count());
        if n > 0 {
            violate("rejected-not-destroyed-once", format!("{name}: after the rejected insertion the ledger shows {n} object(s) leaked or destroyed twice"));
        }
    }
}

#[allow(dead_code)]
fn unused(_: Form) {}
